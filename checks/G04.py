"""G04 (growth, not a listed property): booster::aio::stream_socket - full-transfer operations over partial I/O.
 (a) async_read / read: the handler runs exactly once, with success and the whole buffer filled with the next bytes of the stream
     in order (chunk by chunk), or with an error / eof and the count of the bytes really placed; no byte skipped or delivered twice
 (b) async_write / write: exactly the bytes of the buffer, in order, once; the completion reports the count
 (c) *_some: at least one byte (or an error / eof), never more than the buffer; an empty buffer completes at once with 0
 (d) cancel() / close() with an operation outstanding: it completes without further help, exactly once, `aborted' only after a cancel
 (e) buffer arithmetic: b + n describes exactly the bytes after the first n, for every chunking
Leg D: spec/Aio/Stream.tla - byte pipe + memory cells + the phases of reader_all / writer_all / *_some; DoneOK for every completion,
       CountIsMoved, CancelEffective; seeded design bugs (no advance, cancel reports 0, lost first count of async_write) and the
       mechanism of cancel_io_events as it is in the code (a callable whose readiness is already queued is missed) must be found.
Leg B: harness/aio/stream_drv.cpp - real stream_socket on an AF_UNIX pair / an accepted connection, all three reactors, peer driven
       with raw read/write in small pieces (same thread or a peer thread), readv/writev interposed (logged, made short, EAGAIN, EINTR,
       errors), tiny socket buffers, shutdown / close of the peer; every trace must be a behaviour of the world layer (StreamTrace.tla).
"""
import os, json
import harnesses, shard


def drop_nth(pat, k):
    def f(lines):
        c = 0
        for i, ln in enumerate(lines):
            if pat in ln:
                c += 1
                if c == k:
                    return lines[:i] + lines[i + 1:]
        return None
    return f


def dup_nth(pat, k):
    def f(lines):
        c = 0
        for i, ln in enumerate(lines):
            if pat in ln:
                c += 1
                if c == k:
                    return lines[:i + 1] + [ln] + lines[i + 1:]
        return None
    return f


def edit_nth(pred, edit, k=1):
    """apply edit(json) to the k-th line whose json satisfies pred"""
    def f(lines):
        c = 0
        for i, ln in enumerate(lines):
            try:
                e = json.loads(ln)
            except Exception:
                continue
            if pred(e):
                c += 1
                if c == k:
                    e2 = edit(dict(e))
                    if e2 is None:
                        return None
                    lines[i] = json.dumps(e2, separators=(",", ":"))
                    return lines
        return None
    return f


def wrong_count(e):
    e["n"] = e["n"] - 1
    return e


def swap_bytes(e):
    d = list(e["data"])
    for i in range(len(d) - 1):
        if d[i] != d[i + 1] and d[i + 1] != 238:
            d[i], d[i + 1] = d[i + 1], d[i]
            e["data"] = d
            return e
    return None


def early_ok(e):
    e["ec"] = "ok"
    return e


def bad_adv(e):
    out = [list(c) for c in e["out"]]
    out[0][0] += 1
    e["out"] = out
    return e


def classify(mode, x):
    ev = x["event"]
    name = ev.split('"e":"')[1].split('"')[0] if '"e":"' in ev else "end"
    lines = x["exec"][:x["offset_in_exec"] + 1]
    if name in ("Sync", "Quiesce"):
        # which operation is still in progress
        live = {}
        for ln in lines:
            try:
                e = json.loads(ln)
            except Exception:
                continue
            if e.get("e") == "Start":
                live[e["id"]] = "%s-%s" % ("read" if e["d"] == "r" else "write", e["kind"])
            elif e.get("e") == "Done":
                live.pop(e["id"], None)
        what = "+".join(sorted(set(live.values()))) or "none"
        if mode == "race":
            # the targeted window: cancel()/close() issued after the readiness of the operation was dispatched
            return "cancel-lost-readiness-dispatched"
        return "stream:%s:%s:pending:%s" % (mode, name, what)
    detail = ""
    try:
        e = json.loads(ev)
        if name == "Done":
            detail = ":%s:%s" % (e.get("d"), e.get("ec"))
        elif name in ("SysR", "SysW1"):
            detail = ":" + e.get("cls", "")
        elif name == "Adv":
            detail = ":" + e.get("t", "")
    except Exception:
        pass
    return "stream:%s:%s%s" % (mode, name, detail)


def run(ctx):
    q = ctx.quick
    ctx.assumptions += [
        "the kernel is part of the environment: an AF_UNIX stream pair delivers the bytes written at one end in order at the other; "
        "the model moves exactly the bytes the logged readv/writev results say, into / out of the cells named by the logged iovec",
        "injected results (short transfer, EAGAIN, EINTR, ECONNRESET/EPIPE) are produced by the interposed readv/writev of the harness; "
        "a call with an empty iovec is never made to fail (the kernel returns 0 for it)",
        "one operation per direction at a time (the io_service keeps one callable per descriptor and direction)",
        "(d) is judged at Sync (two full rounds of the dispatch queue after cancel()/close()): an operation that was outstanding must have "
        "completed - with `aborted' or with the truthful result of the one resumption that was already queued",
        "random schedules do not issue cancel()/close() while a readiness callable of the socket sits in the dispatch queue; that window "
        "is driven by the targeted mode `race' only (it is where cancel_io_events() of the code loses the cancel)",
        "select_failed (the reactor reports POLLHUP/POLLERR as error) is accepted as completion code only after the peer shut down or closed",
    ]
    # ---------------- Leg D
    ctx.design("Aio/Stream.tla", "Stream_quick.cfg", workers=6, timeout=600, coverage=True,
               note="both directions, 3 shapes, 2 ops, 3 stream bytes, IOV 1, spurious EAGAIN: CompletionsOK CountIsMoved CancelEffective")
    for cfg, inv in (("Stream_bug_NoAdvance.cfg", "CompletionsOK"), ("Stream_bug_CancelZero.cfg", "CompletionsOK"),
                     ("Stream_bug_WriterCount.cfg", "CountIsMoved"), ("Stream_asis.cfg", "CancelEffective")):
        ctx.design("Aio/Stream.tla", cfg, workers=2, timeout=600, expect_violation=inv, count=False,
                   note=("cancel_io_events as in the code: a callable already queued as ready is missed" if cfg == "Stream_asis.cfg"
                         else "seeded design bug") + " must violate " + inv)
    if not q:
        ctx.design("Aio/Stream.tla", "Stream_thorough.cfg", workers=8, timeout=1500, heap="12g",
                   note="both directions, 5 shapes (up to 3 chunks), 2 ops, 4 stream bytes, IOV 2")
        ctx.design("Aio/Stream.tla", "Stream_thorough3.cfg", workers=8, timeout=1500, heap="16g",
                   note="both directions, 3 shapes, 3 ops, 2 stream bytes, IOV 1")
        ctx.design("Aio/Stream.tla", "Stream_thorough_r.cfg", workers=4, timeout=900, note="reads only: 6 shapes, 4 ops, 5 stream bytes, IOV 2")
        ctx.design("Aio/Stream.tla", "Stream_thorough_w.cfg", workers=4, timeout=900, note="writes only: 6 shapes, 4 ops, queue capacity 3, IOV 2")
        ctx.design("Aio/Stream.tla", "Stream_live.cfg", workers=4, timeout=1500,
                   note="liveness: an operation outstanding at cancel()/close() completes (fairness of the loop)")
    # ---------------- Leg B
    srcs, extra = harnesses.ALL["stream_drv"]
    exe = ctx.harness("stream_drv", srcs, extra=extra)
    jobs = []          # (tag, mode, args)
    if q:
        for reactor in (1, 2, 3):
            jobs.append(("rand-%d" % reactor, "rand", ("rand", reactor, 36, 70)))
        jobs.append(("blk", "blk", ("blk", 1 + ctx.seed % 3, 24, 70)))
        jobs.append(("mt", "mt", ("mt", 1 + (ctx.seed + 1) % 3, 30, 70)))
        jobs.append(("accept", "accept", ("accept", 1 + (ctx.seed + 2) % 3, 12, 40)))
        jobs.append(("buf", "buf", ("buf", 0, 500, 0)))
    else:
        for reactor in (1, 2, 3):
            for part in range(3):
                jobs.append(("rand-%d-%d" % (reactor, part), "rand", ("rand", reactor, 150, 90)))
            jobs.append(("blk-%d" % reactor, "blk", ("blk", reactor, 100, 90)))
            jobs.append(("mt-%d" % reactor, "mt", ("mt", reactor, 150, 90)))
            jobs.append(("accept-%d" % reactor, "accept", ("accept", reactor, 60, 50)))
        jobs.append(("buf", "buf", ("buf", 0, 6000, 0)))
    traces = {}
    for i, (tag, mode, args) in enumerate(jobs):
        path = os.path.join(ctx.work, tag + ".ndjson")
        # every job gets its own seed so that parts differ
        rc, out, err = ctx.run_harness(exe, args, trace=path, env={"VERIF_SEED": str(ctx.seed * 131 + i)}, timeout=600 if q else 1500)
        if rc != 0:
            rc, out, err = ctx.run_harness(exe, args, trace=path, env={"VERIF_SEED": str(ctx.seed * 131 + i)}, timeout=600 if q else 1500)
        if rc != 0:
            rp = os.path.join(ctx.replays, "crash-%s.txt" % tag)
            open(rp, "w").write("%s %s seed=%d\nrc=%s\n%s" % (exe, args, ctx.seed * 131 + i, rc, (err or "")[-3000:]))
            if rc == 124:
                ctx.undecided.append("stream_drv timed out twice: %s" % (args,))
            else:
                ctx.violation("crash:stream_drv:%s" % mode, "driver crashed twice (rc=%s) with %s" % (rc, args), rp)
            continue
        traces[path] = (tag, mode)
    # the targeted window: benign variants (must be accepted) and the ones in which the cancel has to take effect
    race_ok = os.path.join(ctx.work, "race-benign.ndjson")
    race_hot = os.path.join(ctx.work, "race-window.ndjson")
    benign, hot = [], []
    reactors = (1 + ctx.seed % 3,) if q else (1, 2, 3)
    for reactor in reactors:
        for v in (2, 3, 4, 5):
            benign.append((reactor, v))
        for v in ((0, 1) if q else (0, 1, 6)):
            hot.append((reactor, v))
    for path, lst in ((race_ok, benign), (race_hot, hot)):
        with open(path, "w") as f:
            for reactor, v in lst:
                one = os.path.join(ctx.work, "race-one.ndjson")
                rc, out, err = ctx.run_harness(exe, ("race", reactor, 1, 0, v), trace=one, timeout=120)
                if rc != 0:
                    ctx.undecided.append("stream_drv race %d %d rc=%s %s" % (reactor, v, rc, (err or "")[-300:]))
                    continue
                f.write(open(one).read())
        traces[path] = (os.path.basename(path)[:-7], "race")
    for path, (tag, mode) in traces.items():
        with open(path) as f:
            lines = f.readlines()
        if tag.startswith("rand-1") or tag in ("buf", "accept", "blk", "mt"):
            ctx.sample({"driver": tag, "first_events": [x.strip()[:300] for x in lines[1:7]]})
        for ln in lines[:40000]:
            try:
                e = json.loads(ln)
            except Exception:
                continue
            k = e.get("e")
            if k == "Done":
                ctx.seen("%s:Done:%s:%s:%s:%s" % (mode, e["d"], "sync" if e["sync"] else "async", e["ec"], "n>0" if e["n"] > 0 else "n=0"))
            elif k in ("SysR", "SysW1"):
                ctx.seen("%s:%s:%s:%s" % (mode, k, e["cls"], "inj" if e["inj"] else "real"))
            elif k == "Start":
                n = len(e["buf"])
                ctx.seen("%s:Start:%s:%s:chunks%s" % (mode, e["d"], e["kind"], "0" if n == 0 else "1" if n == 1 else "2-16" if n <= 16 else ">16"))
            else:
                ctx.seen("%s:%s" % (mode, k))
    res = shard.parallel_validate(ctx, "Aio/StreamTrace.tla", "StreamTrace.cfg", list(traces.keys()), threads=4, heap="3g",
                                  timeout=900, max_rejects=12)
    reported = {}
    for path, rej in sorted(res.items()):
        tag, mode = traces[path]
        for x in rej:
            sig = classify(mode, x)
            reported[sig] = reported.get(sig, 0) + 1
            if reported[sig] == 1:           # one report per failing input class; the other replays stay in out/replays
                ctx.violation(sig, "%s: trace of the real stream_socket is not a behaviour of Stream at %s" % (tag, x["event"][:220]), x["path"])
    if reported:
        ctx.extra["rejected_executions"] = reported
    # ---------------- binding self-test: corrupted traces must be rejected
    first = [p for p, (tag, mode) in traces.items() if tag.startswith("rand-") and not res.get(p)]
    if first:
        isdone = lambda d, ec: (lambda e: e.get("e") == "Done" and e["d"] == d and e["ec"] == ec and e["n"] > 1)
        ctx.binding_selftest("Aio/StreamTrace.tla", "StreamTrace.cfg", first[0], [
            ("count-off-by-one", edit_nth(isdone("r", "ok"), wrong_count, 2)),
            ("bytes-out-of-order", edit_nth(lambda e: e.get("e") == "Done" and e["d"] == "r" and e["n"] > 2, swap_bytes, 2)),
            ("handler-twice", dup_nth('"e":"Done"', 5)),
            ("handler-never", drop_nth('"ec":"aborted"', 1)),
            ("success-before-full", edit_nth(lambda e: e.get("e") == "Done" and e["ec"] == "aborted" and e["n"] > 0, early_ok, 1)),
            ("wire-byte-lost", edit_nth(lambda e: e.get("e") == "PR" and len(e["bytes"]) > 2, lambda e: dict(e, bytes=e["bytes"][1:]), 2)),
        ])
    bufp = [p for p, (tag, mode) in traces.items() if tag == "buf" and not res.get(p)]
    if bufp:
        ctx.binding_selftest("Aio/StreamTrace.tla", "StreamTrace.cfg", bufp[0], [
            ("advance-off-by-one", edit_nth(lambda e: e.get("e") == "Adv" and len(e["out"]) > 0 and e["n"] > 0, bad_adv, 7)),
        ])
    ctx.extra["rule"] = ("executions = one socket pair / accepted connection each (rand, blk, mt, accept, race) driven for N random steps, or blocks of "
                         "150 buffer-arithmetic calls (buf); distinct = distinct (mode, event kind, direction, completion class, result class) "
                         "combinations seen; events = trace lines validated by TLC")
