"""C13 - the built-in file server never serves anything outside its document roots.
Leg D: spec/Files/FileSrvD.tla - every request path of <= 4 (quick) / 5 (thorough) segments over the
       segment kinds of the design x 8 configurations over the abstract file system; the mechanism model
       (normalize, alias match on components, realpath + prefix test, S_IFDIR/S_IFREG, redirect, index,
       listing) must only serve / list what the property allows (InsideInv, NoEscape).
Leg B: harness/files/files_drv.cpp runs the real cppcms::impl::file_server on a network-free context over
       an on-disk sandbox mirroring that file system (uniquely marked files outside the roots); each
       request / reply is a trace line that spec/Files/FileSrvTrace.tla accepts iff the reply is an error
       page, a redirect, a file whose marker is inside the document root or the alias target the resolved
       path selects, or a listing that obeys ListingRules.  The reply kind predicted by the mechanism model
       is compared as MODEL-DRIFT only.
"""
import os, json

REPORTED = set()
WHY = {1: "file-outside-all-roots", 2: "file-of-unselected-alias", 3: "listing-disabled", 4: "listing-dir-not-inside",
       5: "listing-content", 6: "unrecognised-reply"}
# 5 = the listing page, tokenised the way a browser does, is not the fixed template with exactly one anchor per visible child
#     whose href (percent-decoded) and text (entity-decoded) both equal the child's name: dot-file shown, name not escaped,
#     attribute / tag injected by a name


def run(ctx):
    import shard
    import vlib
    q = ctx.quick
    ctx.assumptions += [
        "file_server::main is driven on a dummy connection (tests/dummy_api.h seam, synchronous serving); the HTTP front end is "
        "represented by cppcms::util::urldecode + C-string truncation applied by the harness to every %-encoded spelling",
        "the sandbox tree is the one logged in each Reset line (planted by the harness itself); markers identify files uniquely",
        "listing pages are judged from the raw HTML by a browser-like reader in TLA+ (tag ends at '>', attribute value at the matching "
        "quote); entry names cover ' \" < > & space % # ? ; = + \\ ( ) ! * ~, bytes >= 0x80, TAB, LF and 0x01",
        "with check_symlink off 'inside' means reachable from the root downwards with the OS following links (the statement "
        "only demands link resolution when checking is on)",
    ]
    W = 16
    legs = os.environ.get("VERIF_LEGS", "DB")      # development aid (sensitivity runs): "B" skips the design leg
    if "D" not in legs:
        ctx.undecided.append("Leg D skipped (VERIF_LEGS=%s): development run only" % legs)
    elif q:
        ctx.design("Files/FileSrvD.tla", "FileSrvD_quick.cfg", workers=W, timeout=600)
        ctx.design("Files/FileSrvD.tla", "FileSrvD_merge.cfg", workers=W, timeout=600, note="names that could be glued into an alias name")
        ctx.design("Files/FileSrvD.tla", "FileSrvD_index.cfg", workers=W, timeout=600, note="directories whose index file is a symlink to outside / inside")
    else:
        ctx.design("Files/FileSrvD.tla", "FileSrvD_index.cfg", workers=W, timeout=600, note="directories whose index file is a symlink to outside / inside")
        ctx.design("Files/FileSrvD.tla", "FileSrvD.cfg", workers=W, timeout=1500, heap="12g")
        ctx.design("Files/FileSrvD.tla", "FileSrvD_wide.cfg", workers=W, timeout=1500, heap="12g")
        ctx.design("Files/FileSrvD.tla", "FileSrvD_merge.cfg", workers=W, timeout=600, note="names that could be glued into an alias name")
    if "D" in legs:
        # self-tests (not counted as coverage): the design invariants bite
        n0, g0 = ctx.states, ctx.transitions
        ctx.design("Files/FileSrvD.tla", "FileSrvD_selftest.cfg", workers=4, timeout=300, expect_violation="InsideInv",
                   note="self-test: RootCheck = FALSE")
        # the segment-merging normalize_path of versions before fd4e774 ("/a/b/../c" -> "/ac") serves the target of an
        # alias the resolved path does not select (InsideInv) although nothing outside every root (NoEscape)
        ctx.design("Files/FileSrvD.tla", "FileSrvD_mergebug.cfg", workers=4, timeout=300, expect_violation="InsideInv",
                   note="self-test: NormBug = TRUE re-detects file-of-unselected-alias")
        ctx.design("Files/FileSrvD.tla", "FileSrvD_mergebug_noescape.cfg", workers=4, timeout=300,
                   note="self-test companion: NormBug = TRUE still never leaves every root")
        ctx.states, ctx.transitions = n0, g0

    exe = ctx.harness("files_drv", ["files/files_drv.cpp"], extra=["-I/repo/tests"])
    jobs = []

    def job(name, args, nsh):
        for k in range(nsh):
            a = list(args)
            a[3], a[4] = k, nsh
            jobs.append((os.path.join(ctx.work, "%s-%d.ndjson" % (name, k)), a))
    ALL = [0, 1, 2, 3, 4, 5, 6, 7]
    if q:
        job("core3", ["enum", "core", 3, 0, 1] + ALL, 1)
        job("core4", ["enum", "core", 4, 0, 1, 5, 7, 6], 3)
        job("full2", ["enum", "full", 2, 0, 1] + ALL, 1)
        job("merge", ["enum", "merge", 5, 0, 1, 5], 1)
        job("ix3", ["enum", "ix", 3, 0, 1] + ALL, 1)
        job("hl3", ["enum", "hl", 3, 0, 1] + ALL, 1)
        job("ix4", ["enum", "ix", 4, 0, 1, 5, 7, 3], 1)
        job("rnd", ["rnd", 1500, 10, 0, 1] + ALL, 1)
    else:
        job("core4", ["enum", "core", 4, 0, 1] + ALL, 4)
        job("core5", ["enum", "core", 5, 0, 1, 5, 7, 6, 3], 12)
        job("mid4", ["enum", "mid", 4, 0, 1, 5, 7, 6, 0], 4)
        job("full3", ["enum", "full", 3, 0, 1] + ALL, 2)
        job("merge", ["enum", "merge", 6, 0, 1, 5], 1)
        job("merge4", ["enum", "merge", 5, 0, 1, 4, 7], 1)
        job("ix4", ["enum", "ix", 4, 0, 1] + ALL, 1)
        job("hl4", ["enum", "hl", 4, 0, 1] + ALL, 2)
        job("ix5", ["enum", "ix", 5, 0, 1, 5, 7, 3], 3)
        job("rnd", ["rnd", 20000, 14, 0, 1] + ALL, 4)
    NT = 6 if q else 12
    traces = shard.run_harness_jobs(ctx, exe, jobs, threads=NT)
    for t in traces:
        with open(t) as f:
            for i, ln in enumerate(f):
                if i < 4000:
                    ctx.seen(ln[ln.find('"p"'):][:100])
        if len(ctx.samples) < 4:
            with open(t) as f:
                f.readline()
                ctx.sample({"trace": os.path.basename(t), "events": [f.readline().strip()[:300] for _ in range(3)]})
    # the "merge" traces (names that an old normalize_path glued into an alias name) are cut at the first rejection
    mtr = [t for t in traces if os.path.basename(t).startswith("merge")]
    res = shard.parallel_validate(ctx, "Files/FileSrvTrace.tla", "FileSrvTrace.cfg", [t for t in traces if t not in mtr], threads=NT, max_rejects=3)
    res.update(shard.parallel_validate(ctx, "Files/FileSrvTrace.tla", "FileSrvTrace.cfg", mtr, threads=NT, max_rejects=1))
    for t, rej in res.items():
        for x in rej:
            report(ctx, shard, x)
    dtr = [t for t in traces if not q or not os.path.basename(t).startswith(("core4-1", "core4-2"))]
    dres = shard.parallel_print_pass(ctx, "Files/FileSrvTrace.tla", "FileSrvDrift.cfg", dtr, "DRIFT", threads=NT)
    nd = 0
    for t, rows in dres.items():
        for r in rows:
            nd += 1
            if nd <= 5:
                try:
                    e = json.loads(shard.event_at(t, int(r[0])))
                    ctx.drift.append("FileSrv mechanism model predicts another %s for path %r (reply %s, %s line %s)" % (
                        r[1].strip('"'), bytes(e.get("raw", [])), e.get("kind"), os.path.basename(t), r[0]))
                except Exception:
                    ctx.drift.append("FileSrv mechanism model differs at %s line %s" % (os.path.basename(t), r[0]))
    if nd > 5:
        ctx.drift.append("... %d drift lines in total" % nd)
    ctx.extra["drift_events_compared"] = sum(1 for t in dtr for _ in open(t))
    for t in traces:
        os.remove(t)
    ctx.extra["rule"] = ("events = requests run against the real file_server (one trace line each, judged by TLC); executions = "
                         "Reset-delimited blocks of <= 500 requests under one configuration; distinct = distinct decoded paths among the "
                         "first 4000 events of each shard")
    ctx.extra["exhaustive"] = True


def report(ctx, shard, x):
    if '"e":"Reset"' in x["event"]:
        ctx.undecided.append("Reset line rejected (sandbox description unusable): %s" % x["event"][:200])
        return
    rows = shard.parallel_print_pass(ctx, "Files/FileSrvTrace.tla", "FileSrvWhy.cfg", [x["path"]], "WHY", threads=1).get(x["path"], [])
    lines = open(x["path"]).read().splitlines()
    cfg = "?"
    try:
        cfg = json.loads(lines[0]).get("cfg")
    except Exception:
        pass
    if not rows:
        ctx.violation("Get:unclassified", "trace line rejected: %s" % x["event"][:200], x["path"])
        return
    seen = set()
    for r in rows:
        sig = "Get:" + WHY.get(int(r[1]), "?")
        if sig in seen or sig in REPORTED:
            continue
        seen.add(sig)
        REPORTED.add(sig)
        try:
            e = json.loads(lines[int(r[0]) - 1])
            desc = "cfg %s (check_symlink=%s listing=%s aliases=%s), request %r (decoded %r) -> %s %s" % (
                cfg, bool(cfg & 1), bool(cfg & 2), bool(cfg & 4), bytes(e["raw"]), bytes(e["p"]), e.get("kind"),
                ("marker %s" % e.get("m")) if "m" in e else ("listing page (table part at offset %s of the block)" % e.get("bo")))
        except Exception:
            desc = "line %s" % r[0]
        ctx.violation(sig, desc[:600], x["path"])
