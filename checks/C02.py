"""C02 - no request, however malformed, crashes the service or disturbs other requests; handled at most once.
Leg D: spec/Input/ConnLife.tla (property layer: AtMostOnce, Contained, Answered, ProbeOK as action guards) and
       ConnLifeImpl.tla (token-level models of the three front-ends' error paths refining it).
Leg B: harness/input/input_drv.cpp (mode c02): grammar mutations, truncation / reset at every offset, lying
       length fields, random bytes and random record sequences on every front-end, batches of connections that become
       ready / are reset, half-closed or closed while the loop thread is held busy; every case is followed by a
       well-formed probe; the driver is restarted behind a case that kills the service.  ConnLifeTrace.tla
       judges every case (one TLC run per front-end, every case an initial state).
"""
import os, json
import inputlib


def strpool(ctx):
    """memory safety of the per-connection string pool (private/string_map.h) that every front-end fills from the request
    and clears between the requests of a keep-alive connection: StrPool.tla (InBounds) + the real class replayed."""
    ctx.design("Input/StrPool.tla", "StrPool.cfg", workers=4, timeout=300, note="string_pool: InBounds, HeadRegular (page 8, allocations 1..7, <=4 pages)")
    ctx.design("Input/StrPool.tla", "StrPool_asfound.cfg", workers=2, timeout=300, expect_violation="InBounds", count=False,
               note="self-test: clear() as it was found (keeps the LAST page) must violate InBounds")
    if not ctx.quick:
        # unbounded in the allocation sizes and page size (2..4096): IndInv is inductive for the repaired clear()
        A = "Input/apalache/StrPoolInd.tla"
        ctx.apalache(A, ["--cinit=ConstInit", "--init=Init", "--inv=IndInv", "--length=0"], note="Init => IndInv")
        ctx.apalache(A, ["--cinit=ConstInit", "--init=IndInit", "--inv=IndInv", "--length=1"], note="IndInv /\\ Next => IndInv' (pre-states: any <=5 pages of any sizes)")
        ctx.apalache(A, ["--cinit=ConstInit", "--init=IndInit", "--inv=InBounds", "--length=1"], note="IndInv => InBounds, also after one step")
        ctx.apalache("Input/apalache/StrPoolIndAsFound.tla", ["--cinit=ConstInit", "--init=IndInit", "--inv=IndInv", "--length=1"], expect_error=True,
                     note="self-test: clear() as found is refuted")
        ctx.tlapm("Input/tlaps/StrPoolProof.tla", note="TLAPS: Spec => []InBounds for every page size, allocation size and number of pages (59 obligations)")
    exe = ctx.harness("strpool_drv", ["input/strpool_drv.cpp"])
    t = os.path.join(ctx.work, "strpool.ndjson")
    rc, out, err = ctx.run_harness(exe, (300, 10) if ctx.quick else (3000, 40), trace=t, timeout=300)
    if rc != 0:
        ctx.undecided.append("strpool_drv rc=%s %s" % (rc, err[-300:])); return
    for x in ctx.validate("Input/StrPoolTrace.tla", "StrPoolTrace.cfg", t):
        try:
            ev = json.loads(x["event"])
        except Exception:
            ev = {"e": "end"}
        unsafe = ev.get("e") == "Died" or ev.get("used", 0) + ev.get("free", 0) > ev.get("cap", 1 << 30) or ev.get("off", 0) + ev.get("n", 0) > ev.get("pcap", 1 << 30)
        if unsafe:
            ctx.violation("strpool:%s" % ev.get("e"), "string_pool hands out memory beyond the page it was carved from: %s" % x["event"][:200], x["path"])
        else:
            ctx.drift.append("string_pool bookkeeping differs from StrPool.tla (still in bounds) at %s" % x["event"][:160])


def run(ctx):
    q = ctx.quick
    ctx.assumptions += [
        "'performs no memory-unsafe operation' is not a TLA+ property: the thorough tier re-runs the cases on an "
        "ASan/UBSan build so that such operations on the explored inputs surface as Died events",
        "label 'bad' is bound to the bytes (the TLA+ decoders do not accept them as a request); 'any' cases make no "
        "claim about the reply, only survival, at-most-once and the probe",
        "server-side events are attributed to a case by running cases one at a time with loop/pool barriers",
        inputlib.HOOKS_NOTE,
    ]
    # ---- Leg D
    ctx.design("Input/ConnLife.tla", "ConnLife.cfg", workers=4, timeout=300, note="property layer: TypeOK, AtMostOnce, Contained")
    for proto in ("Http", "Scgi", "Fcgi"):
        ctx.design("Input/ConnLifeImpl.tla", "ConnLifeImpl%s_%s.cfg" % (proto, "quick" if q else "full"), workers=(6 if q else 16), timeout=1500, heap="12g",
                   note="mechanism of the %s error paths as designed: AtMostOnce, Contained, Answered, refinement of ConnLife" % proto)
    if True:
        # self-test: the model of the code *as it was found* (F1-F3) must violate the invariants
        for cfg, inv in (("ConnLifeImplHttp_F1.cfg", "Contained"), ("ConnLifeImplFcgi_F2.cfg", "AtMostOnce"),
                         ("ConnLifeImplFcgi_F3.cfg", "AtMostOnce"), ("ConnLifeImplFcgi_F3b.cfg", "Answered")):
            ctx.design("Input/ConnLifeImpl.tla", cfg, workers=8, timeout=600, expect_violation=inv, count=False,
                       note="self-test: defect model must violate " + inv)
    strpool(ctx)
    # ---- Leg B
    flavours = ["hooks"]
    if not q:
        # observability aid only: memory errors on the explored inputs become Died events
        import subprocess
        b = subprocess.run([os.path.join(os.path.dirname(os.path.dirname(os.path.abspath(__file__))), "bin", "build.sh"), "asan"],
                           stdout=subprocess.PIPE, stderr=subprocess.PIPE, text=True)
        if b.returncode == 0:
            flavours.append("asan")
        else:
            ctx.extra["asan"] = "sanitizer build not available: " + b.stderr[-200:]
    seen = {}
    hooks_any = False
    for fl in flavours:
        exe = ctx.harness(inputlib.HARNESS[0], inputlib.HARNESS[1], flavour=fl)
        if fl == "asan":
            rc, out, err = ctx.run_harness(exe, ["smoke"], timeout=300)
            if rc != 0:
                ctx.extra["asan"] = "sanitizer build does not pass the smoke run (rc=%s): %s" % (rc, (err or "")[-300:])
                continue
        protos = ("http", "scgi", "fcgi")
        traces = {p: os.path.join(ctx.work, "c02-%s-%s.ndjson" % (fl, p)) for p in protos}
        info = {}

        def drive(p):
            def f():
                info[p] = inputlib.run_c02_driver(ctx, exe, p, traces[p], timeout=1500)
            return f
        inputlib.parallel([drive(p) for p in protos], 3)
        jobs, subs = [], []
        for p in protos:
            n, restarts, hooks = info.get(p, (0, 0, False))
            hooks_any = hooks_any or hooks
            ctx.extra["cases_%s_%s" % (fl, p)] = n
            ctx.extra["restarts_%s_%s" % (fl, p)] = restarts
            if not os.path.exists(traces[p]):
                continue
            files = [("full", traces[p])]
            if hooks:
                # property layer first: the same trace without the completion events
                st = traces[p] + ".nohooks"
                with open(st, "w") as f:
                    for ln in open(traces[p]):
                        if '"e":"Prepare"' in ln or '"e":"Complete"' in ln:
                            continue
                        f.write(ln.replace('"hooks":true', '"hooks":false') if '"e":"Conn"' in ln else ln)
                files = [("prop", st), ("full", traces[p])]
            for layer, path in files:
                s = inputlib.SubCtx(ctx, "v-%s-%s-%s" % (fl, p, layer))
                subs.append(s)
                jobs.append((lambda s=s, path=path: inputlib.validate_execs(s.c, "Input/ConnLifeTrace.tla", "ConnLifeTrace.cfg", path,
                                                                          timeout=1500, heap="6g")))
        results = inputlib.parallel(jobs, 4)
        k = 0
        for p in protos:
            if not os.path.exists(traces[p]):
                continue
            hooks = info.get(p, (0, 0, False))[2]
            layers = ["prop", "full"] if hooks else ["full"]
            rejected_idx = set()
            for layer in layers:
                rej = results[k]
                s = subs[k]
                k += 1
                if layer == "prop" and hooks:
                    pass
                if layer == "full" or not hooks:
                    s.merge()                      # count every case once
                if isinstance(rej, Exception):
                    ctx.undecided.append("validation crashed: %r" % rej)
                    continue
                for x in rej:
                    idx, sig, desc = classify(x, fl)
                    if idx in rejected_idx:
                        continue                   # already reported from the property layer
                    rejected_idx.add(idx)
                    if sig is None:
                        ctx.undecided.append(desc)
                        continue
                    if sig in seen:
                        seen[sig][0] += 1
                    else:
                        seen[sig] = [1, desc, x["path"]]
        # samples
        for p in protos:
            if os.path.exists(traces[p]):
                with open(traces[p]) as f:
                    for i, ln in enumerate(f):
                        if '"e":"Conn"' in ln:
                            m = ln.find('"cls"')
                            ctx.seen(ln[m:m + 60])
                        if i < 4 and fl == "hooks":
                            ctx.sample(ln[:300])
    for sig, (n, desc, path) in sorted(seen.items()):
        ctx.violation(sig, "%s (%d case%s)" % (desc, n, "" if n == 1 else "s"), path)
    ctx.extra["completion_hooks_present"] = hooks_any
    ctx.extra["rule"] = ("executions = malformed-input cases (one connection + one probe each), each judged by TLC against ConnLife; "
                         "distinct = mutation classes driven")


def classify(x, flavour):
    """signature = <mutation class>-<what went wrong>; independent of whether completion hooks are present"""
    try:
        evs = [json.loads(ln) for ln in x["exec"]]
        conn = [e for e in evs if e.get("e") == "Conn"][0]
        rej = json.loads(x["event"])
    except Exception:
        return None, None, "unparsable rejected execution %s" % x["event"][:200]
    cls, idx, label = conn["cls"], conn["idx"], conn["label"]
    died = [e for e in evs if e.get("e") == "Died"]
    what = "bytes=%s" % (bytes(conn["bytes"][:120]) if conn.get("hasbytes") else "<%d bytes>" % conn["len"])
    if conn.get("batch"):
        what = ("batch of %d connections made ready while the loop thread was held busy (mode %d: 1 ended before the poll, 2 ended between "
                "the poll and the read handlers, 3 ended by a racing thread); connection 0 = complete request, then RST" % (conn.get("members", 0), conn["batch"]))
    if died:
        why = died[0].get("why", "")
        kind = "kills-loop" if "service::run" in why else ("sanitizer" if flavour == "asan" else "crash")
        return idx, "%s-%s" % (cls, kind), "%s front-end, case %d (%s): the service died: %s; %s" % (conn["proto"], idx, cls, why, what)
    e = rej.get("e")
    if e == "Conn":
        return idx, None, "driver label 'bad' contradicts the TLA+ decoder for case %d (%s) %s" % (idx, cls, what)
    if e == "Handler":
        kind = "handler-called-again"
    elif e in ("OnError", "Setup"):
        kind = "upload-error-notified-again"
    elif e in ("Complete", "Prepare"):
        kind = "double-completion"
    elif e == "Reply":
        if rej.get("kind") == "open":
            kind = "not-answered"
        elif not rej.get("frame"):
            kind = "bad-reply-frame"
        elif label == "bad":
            kind = "accepted"
        else:
            kind = "valid-request-not-served"
    elif e == "Early":
        kind = "answered-before-complete"
    elif e == "Seen":
        kind = "foreign-bytes-in-environment"
    elif e == "Probe":
        kind = "probe-failed"
    elif e == "Late":
        # server-side events arrived after the case had been closed: the attribution of events to cases failed
        return idx, None, "case %d (%s): application/completion events arrived after the quiescence barrier: %s" % (idx, cls, json.dumps(rej))
    else:
        kind = "unexpected-" + str(e)
    events = [ev.get("e") + (str(ev.get("ec")) if ev.get("e") == "Complete" else "") for ev in evs[2:]]
    return idx, "%s-%s" % (cls, kind), "%s front-end, case %d (%s, label %s): %s at event %s; events %s; %s" % (
        conn["proto"], idx, cls, label, kind, json.dumps(rej)[:160], events, what)
