"""C15 - HTML escaping neutralises all markup; URL and base64 codecs are exact inverses.

Leg D: spec/Text/Codec.tla - Escape/Unescape, UrlEncode/UrlDecode, B64Enc/B64Dec (base64url, unpadded,
       lenient decoder), EncSize/DecSize as TLA+ functions.  TLC checks on all strings over 24
       representative bytes up to length 3 (4 in thorough tier) that the functions satisfy the property
       predicates (no markup / bare &, un-escapes to the input; unreserved|%HH, decodes to the input;
       URL-safe alphabet, unpadded, exact size, decodes to the input), that no truncated output does
       ("failure iff truncated"), the positional UrlDecode equals the sequential scan of the code, and
       the size arithmetic for 0..1024 (4096).
Leg B: harness/text/codec_drv.cpp calls util::escape (3 overloads), urlencode (3), urldecode (2),
       b64url::encode/decode (string, pointer, stream), encoded_size/decoded_size, filters::escape /
       urlencode / base64_urlencode (also fed by ONE streamable object that writes several pieces: all 2- and
       3-piece length combinations around the filters' 128-byte buffer, char-by-char, random piece sequences,
       booster::locale::format; judged on the concatenation); every (begin,end) entry point on sub-ranges of larger
       buffers with adversarial neighbouring bytes and on ranges ending / starting at an inaccessible page, judged by the
       range content alone and required to equal the std::string form on a copy of the range (RangeLocal; an access
       outside the range next to the inaccessible page becomes a Died event); every form widget (text, password, hidden,
       textarea, numeric, checkbox, email, regex_field, file, submit, select / select_multiple / radio through all add()
       overloads) rendered in html / xhtml x as_p / as_table / as_ul / as_dl / as_space with a placeholder and with every
       string of length <= 2 over < > & " ' plus injection strings in each escaped slot: rendering = Template[placeholder := X],
       X an acceptable escaping (mechanism layer X = Escape(s)); id(), name(), attributes_string() are raw by design; and the text / textarea widgets' rendering; every call is an event
       judged by CodecTrace.tla: property layer = the statement's predicates, mechanism layer (Strict)
       = output equals the TLA+ function (MODEL-DRIFT only).
"""
import os, json, threading
import textlib
from textlib import ev, hexs

KNOWN_SHAPES = {
    "ptr1mod4": ("b64-decode-ptr-len1mod4",
                 "b64url::decode(begin,end,target) on input of length 1 mod 4 writes 3 bytes past the complete blocks although decoded_size() = -1"),
    "urlsb": ("urlencode-sb-io-failure-unreported",
              "util::urlencode(begin,end,streambuf&) returns 0 although the stream buffer refused characters (output truncated)"),
}


def run(ctx):
    q = ctx.quick
    ctx.assumptions += [
        "exact output text (e.g. &#39; rather than &apos;, lower-case hex, zero pad bits in the last base64 character), the decoders' answers on "
        "input that no encoder produces (malformed %, '+', foreign base64 characters) are mechanism-layer facts: deviations are MODEL-DRIFT",
        "a sink is a std::streambuf that accepts cap characters and then refuses (or accepts at most k characters per xsputn call); "
        "failure must be reported iff the received text is not a complete acceptable output (TLC: no proper prefix of an output is acceptable)",
        "for decoded_size() = -1 the caller's buffer is taken to hold the complete 4-character blocks only",
        "widget output is taken from between value=\" and the last quote (text) / between > and </textarea> (textarea)",
        "memory safety is observed through 32 guard bytes on each side of exactly-sized buffers only",
    ]
    exe = ctx.harness("codec_drv", ["text/codec_drv.cpp"])
    pool = textlib.Pool(ctx, jobs=6 if q else 10)
    explained = []

    def drv(tag, args, known=None, max_rejects=8):
        import time
        t0 = time.time()
        try:
            return drv_(tag, args, known, max_rejects)
        finally:
            if os.environ.get("VERIF_DEBUG"):
                print("job %s: %.1fs (ends at +%.1fs)" % (tag, time.time() - t0, time.time() - ctx.t0), flush=True)

    def drv_(tag, args, known=None, max_rejects=8):
        f = os.path.join(ctx.work, "codec-%s.ndjson" % tag)
        rc, out, err = ctx.run_harness(exe, args, trace=f, timeout=1200)
        if rc != 0:
            ctx.undecided.append("codec_drv %s failed rc=%s %s" % (args, rc, err[-800:]))
            return
        note(ctx, f, tag)
        # the mechanism layer implies the property layer: one run suffices when it accepts
        rej = pool.validate("Text/CodecTrace.tla", "CodecTraceStrict.cfg", f, max_rejects=1) if not known else [None]
        if rej:
            drift = rej
            rej = pool.validate("Text/CodecTrace.tla", "CodecTrace.cfg", f, max_rejects=max_rejects)
            if not rej and drift[0]:
                e = ev(drift[0])
                ctx.drift.append("output differs from the mechanism-layer function (property still holds) at %s" % json.dumps(e)[:300])
        for x in rej:
            if known:
                e = ev(x)
                ctx.violation(KNOWN_SHAPES[known][0], KNOWN_SHAPES[known][1] + "; input " + hexs(e.get("in", [])) +
                              " result " + json.dumps(e.get("r", ""))[:200], x["path"])
            else:
                explain(x)
        os.remove(f)

    def explain_run(f):
        """one TLC run in Explain mode: returns the 1-based line numbers of the Call events TLC does not accept"""
        import re
        with pool.sem:
            r = ctx.tlc("Text/CodecTrace.tla", "CodecTraceExplain.cfg", workers=1, timeout=600, deadlock_off=True, count=False,
                        env=dict(textlib.JAVA_ENV, TRACE=f), note="names the function behind a rejected event")
        if r.failed or "TRACE-MATCHED" not in r.out:
            return None
        return sorted(set(int(m) for m in re.findall(r'"EXPLAIN-REJECT", (\d+)', r.out)))

    def explain(x):
        """name the function and input of a rejected event (extra TLC runs, only on the failure path)"""
        e = ev(x)
        k = e.get("e", "end")
        with textlib._lock:
            first = len(explained) < 6
            explained.append(k)
        if k == "Row" and first:
            f = os.path.join(ctx.work, "codec-ext-%s-%d.ndjson" % (hexs(e["pre"]), threading.get_ident()))
            rc, out, err = ctx.run_harness(exe, ["ext", hexs(e["pre"]) or "-"], trace=f, timeout=300)
            bad = explain_run(f) if rc == 0 else None
            if bad:
                lines = open(f).read().splitlines()
                return explain_call(json.loads(lines[bad[0] - 1]), x["path"])
            return ctx.violation("row:%s" % hexs(e["pre"]), "results for the one-byte extensions of %s rejected" % hexs(e["pre"]), x["path"])
        if k == "Call" and first:
            return explain_call(e, x["path"])
        if k == "Range":
            return explain_range(e, x["path"], first)
        if k == "Widget":
            return explain_widget(e, x["path"], first)
        if k == "Died":
            return ctx.violation("died:%s:%s:%s" % (e["fn"], e["ctx"].split(",")[0], hexs(e["in"])[:16]),
                                 "%s on the range %s placed at %s touched memory outside the range (signal %s)" % (e["fn"], hexs(e["in"])[:80], e["ctx"], e["sig"]), x["path"])
        if k == "Round":
            return ctx.violation("round:%s:%s" % (e["fam"], hexs(e["in"])[:16]),
                                 "decode(encode(x)) # x for %s: x=%s encoded=%s decoded=%s" % (e["fam"], hexs(e["in"])[:64], hexs(e["mid"])[:64], hexs(e["out"])[:64]), x["path"])
        if k == "Sizes":
            return ctx.violation("sizes:%d" % e["n"], "encoded_size(%d)=%d decoded_size(%d)=%d" % (e["n"], e["enc"], e["n"], e["dec"]), x["path"])
        ctx.violation("%s:%s" % (k.lower(), hexs(e.get("in", e.get("pre", [])))[:16]), "event rejected: %s" % x["event"][:200], x["path"])

    def explain_range(e, path, first):
        """a rejected Range event: either one result is unacceptable for the range content (as for Call), or a range
        form differs from the std::string form on a copy of the range (RangeLocal); the labels below only describe
        the event TLC rejected"""
        base = lambda fn: fn.split("_")[0]
        groups = e["r"]
        for i, g in enumerate(groups):
            for h in groups[i + 1:]:
                if g["sink"] != "none" or h["sink"] != "none" or g["fail"] or h["fail"]:
                    continue
                if any(x == "b64dec_str" and y["ret"] != 1 for x, y in ((g["fns"][0], g), (h["fns"][0], h))):
                    continue
                if {base(f) for f in g["fns"]} & {base(f) for f in h["fns"]} and g["out"] != h["out"]:
                    odd = h if "copy" in g.get("ctx", []) else g
                    ref = g if odd is h else h
                    return ctx.violation("range-local:%s:%s" % (odd["fns"][0], hexs(e["in"])[:16]),
                                         "%s on the range %s placed at %s gave %s, the std::string form on a copy of the range gave %s: "
                                         "the result depends on bytes outside [begin,end)" % (
                                             "/".join(odd["fns"]), hexs(e["in"])[:80], ";".join(odd.get("ctx", []))[:120], hexs(odd["out"])[:80], hexs(ref["out"])[:80]), path)
        if first:
            return explain_call(e, path)
        ctx.violation("range:%s" % hexs(e["in"])[:16], "range event rejected: %s" % json.dumps(e)[:200], path)

    def explain_widget(e, path, first):
        """a rejected Widget event: name the string(s) whose rendering TLC does not accept (one Explain run)"""
        where = "%s %s [%s %s%s]" % (e["w"], e["slot"], e["html"], e["list"], " id" if e["id"] else "")
        bad = None
        if first:
            f = os.path.join(ctx.work, "codec-widget-%d-%d.ndjson" % (threading.get_ident(), len(explained)))
            with open(f, "w") as fh:
                for c in e["cases"]:
                    fh.write('{"e":"Reset","kind":"explain"}\n' + json.dumps(dict(e, cases=[c]), separators=(",", ":")) + "\n")
            bad = explain_run(f)
        if not bad:
            return ctx.violation("widget:%s:%s" % (e["w"], e["slot"]), "rendering of %s rejected" % where, path)
        c = e["cases"][bad[0] // 2 - 1]
        tmpl = bytes(e["tmpl"]).decode("latin1")
        ctx.violation("widget:%s:%s:%s" % (e["w"], e["slot"], hexs(c["in"])[:24]),
                      "%s with the string %r renders %r; the template is %r with the placeholder %s standing for the escaped string "
                      "(%d of %d strings rejected)" % (where, bytes(c["in"]).decode("latin1"), bytes(c["out"]).decode("latin1")[:300], tmpl[:300],
                                                       bytes(e["ph"]).decode(), len(bad), len(e["cases"])), path)

    def explain_call(e, path):
        f = os.path.join(ctx.work, "codec-one-%d-%d.ndjson" % (threading.get_ident(), len(explained)))
        with open(f, "w") as fh:
            for g in e["r"]:
                fh.write('{"e":"Reset","kind":"explain"}\n' + json.dumps({"e": "Call", "in": e["in"], "r": [g]}, separators=(",", ":")) + "\n")
        bad = explain_run(f) or []
        for ln in bad:
            g = e["r"][ln // 2 - 1]
            fn = g["fns"][0]
            if fn == "b64dec_ptr" and len(e["in"]) % 4 == 1:
                sig = KNOWN_SHAPES["ptr1mod4"][0]
            elif fn == "urlencode_sb" and g["sink"] != "none" and not g["fail"]:
                sig = KNOWN_SHAPES["urlsb"][0]
            else:
                sig = "%s%s:%s" % (fn, "" if g["sink"] == "none" else ":" + g["sink"], hexs(e["in"])[:16] + (".." if len(e["in"]) > 8 else ""))
            ctx.violation(sig, "%s on input %s gave out=%s fail=%s ret=%s size=%s cap=%s canary=%s" % (
                "/".join(g["fns"]), hexs(e["in"])[:80], hexs(g["out"])[:80], g["fail"], g["ret"], g["size"], g["cap"], g["canary"]), path)
        if not bad:
            ctx.violation("call:%s" % hexs(e["in"])[:16], "call event rejected as a whole: %s" % json.dumps(e)[:200], path)

    # ------------------------------------------------------------------ Leg B jobs
    specs = []
    for i in range(1 if q else 4):
        specs.append(("big-%d" % i, ["big", (1 if q else 2) + i, 16384 if q else 65536], {}))
    for i, (a, b) in enumerate([(0, 380), (381, 620), (621, 820), (821, 1024)]):
        specs.append(("sizes-%d" % i, ["sizes", a, b], {}))
    specs.append(("ptr1mod4", ["ptr1mod4"], {"known": "ptr1mod4", "max_rejects": 1}))
    specs.append(("urlsb", ["urlsb"], {"known": "urlsb", "max_rejects": 1}))
    # template filters fed by one streamable object that writes several pieces (filterbuf's 128-byte buffering)
    npc = 3 if q else 8
    for i in range(npc):
        specs.append(("pieces-%d" % i, ["pieces", i, npc], {}))
    # (begin,end) entry points on sub-ranges of larger buffers / next to inaccessible pages vs. the string forms on a copy
    nrg = 1 if q else 6
    for i in range(nrg):
        specs.append(("ranges-%d" % i, ["ranges", i, nrg], {}))
    # form widget rendering: every escaped slot of every widget against Template[placeholder := Escape(s)]
    nwd = 4 if q else 6
    for i in range(nwd):
        specs.append(("widgets-%d" % i, ["widgets", i, nwd], {"max_rejects": 4}))
    nrow = 4 if q else 8
    for i in range(nrow):
        specs.append(("rows-%d" % i, ["rows", 257 * i // nrow, 257 * (i + 1) // nrow, "all"], {}))
    for i in range(4 if q else 12):
        specs.append(("rand-%d" % i, ["rand", (300 if q else 800) + i, (150 if i % 2 == 0 else 40) if i < 10 else 1000], {}))
    specs.append(("exh1", ["exh", 1, 0, 1], {}))
    if not q:
        # all 3-byte strings through the base64 functions: 65536 two-byte prefixes x 256
        n3 = 24
        for i in range(n3):
            specs.append(("b64rows-%d" % i, ["rows", 257 + 65536 * i // n3, 257 + 65536 * (i + 1) // n3, "b64"], {}))
    jobs = [threading.Thread(target=pool._guard, args=(drv, t, a), kwargs=kw) for t, a, kw in specs]
    # at most (pool jobs + 2) harness/validation threads at a time; TLC JVMs are bounded by the pool's semaphore
    gate = threading.BoundedSemaphore(8 if q else 12)

    def gated(j):
        with gate:
            j.start()
            j.join()
    runners = [threading.Thread(target=gated, args=(j,)) for j in jobs]
    for r_ in runners:
        r_.start()

    # ------------------------------------------------------------------ Leg D (main thread)
    ctx.design("Text/Codec.tla", "Codec_quick.cfg" if q else "Codec.cfg", workers=8 if q else 16, timeout=1500,
               note="all strings over 24 representative bytes up to length %d; size laws 0..%d" % ((3, 1024) if q else (4, 4096)))
    for r_ in runners:
        r_.join()
    pool.ex.shutdown()
    ctx.extra["exhaustive"] = True
    ctx.extra["rule"] = ("evaluations = trace events judged by TLC (Call = one input through all functions, Row = a prefix extended by all 256 bytes "
                         "through all functions, Round, Sizes); function_results = individual function results inside them; "
                         "distinct = distinct (driver mode, function, sink, failure, length class) combinations")


_results = [0]


def note(ctx, f, tag):
    mode = tag.split("-")[0]
    n = 0
    with open(f) as fh:
        for ln in fh:
            if (ln.startswith('{"e":"Call"') or ln.startswith('{"e":"Range"')) and len(ln) < 200000:
                try:
                    e = json.loads(ln)
                except Exception:
                    continue
                for g in e["r"]:
                    n += len(g["fns"])
                    for fn in g["fns"]:
                        ctx.seen((mode, fn, g["sink"], g["fail"], min(len(e["in"]).bit_length(), 12)))
            elif ln.startswith('{"e":"Widget"'):
                n += ln.count('"in":')
                i = ln.find('"ph"')
                ctx.seen((mode, ln[:i]))
            elif ln.startswith('{"e":"Row"'):
                n += 256 * (10 if '"all":true' in ln[:200] else 3)
                ctx.seen((mode, "Row", ln[:60].count(",")))
            elif ln.startswith('{"e":"Call"'):
                n += 15
    with textlib._lock:
        _results[0] += n
        ctx.extra["function_results"] = _results[0]
        if mode in ("exh1", "rand") and len(ctx.samples) < 4:
            with open(f) as fh:
                fh.readline()
                ctx.sample({mode: fh.readline().strip()[:400]})
