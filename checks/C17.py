"""C17 - every scheduled handler runs exactly once: posts, timers, I/O waits, pool jobs.
Leg D: LoopImpl.tla (mechanism of io_service.cpp, one action per critical section; poll returns only
       for reasons snapshotted at poll begin, so a lost wake-up is a liveness failure): AtMostOnce,
       TimerNotEarly, CodeRule + EventuallyRuns under weak fairness; three seeded design bugs (no wake in
       post, handler copied instead of moved, pre-fix ordering of deferred set/cancel) must be found.
       Pool.tla: AtMostOnce, CancelSound, ExactlyOnce (liveness), WorkersBounded.
Leg B: producer threads against a running loop for each reactor back-end, hooks under data_mutex_ +
       harness Reg/Run events; must be a behaviour of Loop.tla (LoopTrace.tla).  Pool: PoolTrace.tla.
"""
import os, subprocess
from vlib import ROOT


def sorted_trace(ctx, exe, args, tag, timeout=900):
    raw = os.path.join(ctx.work, tag + ".raw")
    srt = os.path.join(ctx.work, tag + ".ndjson")
    rc, out, err = ctx.run_harness(exe, args, trace=raw, timeout=timeout)
    if rc != 0:
        rc, out, err = ctx.run_harness(exe, args, trace=raw, timeout=timeout)
        if rc != 0:
            rp = os.path.join(ctx.replays, "crash-%s.txt" % tag)
            open(rp, "w").write("%s %s\nrc=%s\n%s" % (exe, args, rc, err[-3000:]))
            if rc == 124:
                ctx.undecided.append("driver timed out twice: %s %s" % (os.path.basename(exe), (args,)))
            else:
                ctx.violation("crash:%s" % os.path.basename(exe), "driver crashed twice (rc=%s) with %s" % (rc, (args,)), rp)
            return None
    p = subprocess.run([os.path.join(ROOT, "bin", "tracesort"), raw, srt], stderr=subprocess.PIPE, text=True)
    os.remove(raw)
    if p.returncode != 0:
        ctx.undecided.append("tracesort failed: " + p.stderr[-300:])
        return None
    return srt


def drop_nth(pat, k):
    def f(lines):
        c = 0
        for i, ln in enumerate(lines):
            if pat in ln:
                c += 1
                if c == k:
                    return lines[:i] + lines[i + 1:]
        return None
    return f


def dup_nth(pat, k):
    def f(lines):
        c = 0
        for i, ln in enumerate(lines):
            if pat in ln:
                c += 1
                if c == k:
                    return lines[:i + 1] + [ln] + lines[i + 1:]
        return None
    return f


def wrong_code(lines):
    for i, ln in enumerate(lines):
        if '"e":"Enq"' in ln and '"why":"timer_cancel"' in ln:
            lines[i] = ln.replace('"ec":1,', '"ec":0,').replace('"ec":125,', '"ec":0,')
            if lines[i] != ln:
                return lines
    return None


def early_timer(lines):
    import re as _re
    for i, ln in enumerate(lines):
        if '"e":"TimerFire"' in ln:
            m = _re.search(r'"now":(-?\d+),"dl":(-?\d+)', ln)
            if m:
                lines[i] = ln.replace('"now":%s,' % m.group(1), '"now":%d,' % (int(m.group(2)) - 1))
                return lines
    return None


def classify(x):
    ev = x["event"]
    for k in ("Quiesce", "PQuiesce", "Enq", "Deq", "Run", "TimerFire", "CancelTimer", "SetTimer", "SetIo", "PPop", "PCancel", "Job", "PDone", "Died"):
        if '"e":"%s"' % k in ev:
            return k
    return "other"


def run(ctx):
    q = ctx.quick
    ctx.assumptions += [
        "hook events are emitted under data_mutex_ / the pool mutex after the state change; the global sequence number is the only ordering used",
        "kernel readiness is an environment input: the cause recorded by the hook (io_ready / io_cancel / timer_fire ...) is trusted, the code delivered must match it",
        "handler objects are kept alive for a whole round so that callable addresses identify handlers uniquely",
        "LoopImpl.tla: one direction per descriptor, one descriptor per producer",
    ]
    # ---------------- Leg D
    ctx.design("Aio/LoopImpl.tla", "LoopImpl_io1.cfg", workers=8, timeout=900, note="1 producer, posts + io set/cancel/ready, liveness")
    ctx.design("Aio/LoopImpl.tla", "LoopImpl_timer.cfg", workers=8, timeout=900, note="2 producers, posts + timers, clock 0..1, liveness")
    ctx.design("Aio/Pool.tla", "Pool.cfg", workers=4, timeout=600, note="3 jobs, 2 workers, post/cancel/pop/run/done, liveness")
    for cfg, inv in (("LoopImpl_bug_BugNoWake.cfg", "EventuallyRuns"), ("LoopImpl_bug_OrderFix.cfg", "EventuallyRuns"),
                     ("LoopImpl_bug_BugCopyHandler.cfg", "AtMostOnce")):
        ctx.design("Aio/LoopImpl.tla", cfg, workers=4, timeout=600, expect_violation=inv, count=False, note="seeded design bug must violate " + inv)
    if not q:
        ctx.design("Aio/LoopImpl.tla", "LoopImpl_io.cfg", workers=16, timeout=2400, heap="16g", note="2 producers, posts + io, liveness")
        ctx.design("Aio/LoopImpl.tla", "LoopImpl_all.cfg", workers=16, timeout=2400, heap="24g", note="2 producers, all kinds, safety")
        ctx.design("Aio/Pool.tla", "Pool_big.cfg", workers=8, timeout=900, note="4 jobs, 3 workers")
    # ---------------- Leg B: event loop
    exe = ctx.harness("loop_drv", ["aio/loop_drv.cpp"])
    runs = []
    if q:
        for reactor in (1, 2, 3):
            runs.append((reactor, 4, 120, 2, "drain"))
        runs += [(0, 8, 80, 2, "drain"), (0, 1, 50, 2, "pingpong"), (2, 1, 40, 1, "pingpong"), (0, 1, 250, 2, "cancelrace"), (0, 4, 200, 3, "stop"),
                 (3, 1, 150, 2, "closerace"), (2, 1, 100, 1, "closerace"), (0, 2, 6, 3, "dtimer"), (2, 3, 4, 2, "dtimer"), (0, 1, 15, 2, "restart"), (1, 1, 10, 1, "restart"), (1, 1, 2, 2, "prestart"), (2, 1, 2, 2, "prestart"), (3, 1, 3, 1, "prestart"),
                 (0, 1, 1, 5, "burst"), (2, 1, 1, 2, "burst"), (0, 1, 60, 2, "devclose"), (1, 1, 40, 1, "devclose"), (2, 1, 40, 1, "devclose"),
                 (0, 1, 60, 2, "badfd"), (1, 1, 40, 1, "badfd"), (2, 1, 40, 1, "badfd"),
                 (0, 1, 25, 2, "eqtimers"), (1, 1, 15, 1, "eqtimers"), (2, 1, 15, 1, "eqtimers")]
    else:
        for reactor in (1, 2, 3):
            for prod in (1, 2, 4, 8):
                runs.append((reactor, prod, 250, 3, "drain"))
            runs += [(reactor, 1, 80, 2, "pingpong"), (reactor, 1, 400, 3, "cancelrace"), (reactor, 4, 300, 4, "stop"),
                     (reactor, 1, 400, 3, "closerace"), (reactor, 1, 3, 3, "prestart"), (reactor, 4, 8, 6, "dtimer"), (reactor, 1, 40, 3, "restart"), (reactor, 1, 1, 9, "burst"), (reactor, 1, 300, 3, "devclose"), (reactor, 1, 200, 3, "badfd"), (reactor, 1, 80, 3, "eqtimers")]
    n = 0
    for spec in runs:
        n += 1
        srt = sorted_trace(ctx, exe, spec, "loop-%d" % n)
        if not srt:
            continue
        with open(srt) as f:
            lines = f.readlines()
        if n == 1:
            ctx.sample({"driver(reactor,producers,ops,rounds,mode)": list(spec), "first_events": [x.strip() for x in lines[:16]]})
        for ln in lines[:30000]:
            i = ln.find('"e":')
            ctx.seen("loop:" + ln[i:i + 24].split(",")[0] + (ln[ln.find('"why"'):][:24] if '"why"' in ln else ""))
        rej = ctx.validate("Aio/LoopTrace.tla", "LoopTrace.cfg", srt, timeout=900)
        if n == 1 and not rej:
            ctx.binding_selftest("Aio/LoopTrace.tla", "LoopTrace.cfg", srt, [("drop-run", drop_nth('"e":"Run"', 5)), ("dup-run", dup_nth('"e":"Run"', 7)),
                                 ("wrong-code", wrong_code), ("early-timer", early_timer)])
        for x in rej:
            ctx.violation("loop:%s:%s" % (spec[4], classify(x)), "event-loop trace is not a behaviour of Loop at %s" % x["event"][:200], x["path"])
        os.remove(srt)
    # ---------------- Leg B: pool
    exe = ctx.harness("pool_drv", ["aio/pool_drv.cpp"])
    pruns = [(3, 4, 200, 2), (1, 8, 150, 2), (8, 2, 300, 2)] if q else [(w, p, 400, 3) for w in (1, 2, 3, 8) for p in (1, 2, 4, 8)]
    for spec in pruns:
        n += 1
        srt = sorted_trace(ctx, exe, spec, "pool-%d" % n)
        if not srt:
            continue
        with open(srt) as f:
            lines = f.readlines()
        if spec == pruns[0]:
            ctx.sample({"driver(workers,posters,ops,rounds)": list(spec), "first_events": [x.strip() for x in lines[:10]]})
        for ln in lines[:5000]:
            i = ln.find('"e":')
            ctx.seen("pool:" + ln[i:i + 16].split(",")[0] + ("ok" if '"ok":true' in ln else ""))
        rej = ctx.validate("Aio/PoolTrace.tla", "PoolTrace.cfg", srt, timeout=900)
        for x in rej:
            ctx.violation("pool:%s" % classify(x), "pool trace is not a behaviour of Pool at %s" % x["event"][:200], x["path"])
        os.remove(srt)
    ctx.extra["rule"] = ("executions = rounds (one io_service / thread_pool each) of k producer threads doing random post/arm/cancel operations; "
                         "distinct = distinct (event kind, cause) pairs seen; events = hook + harness trace lines validated by TLC")
