"""G06 (growth, not a listed property): the reader/writer locks of booster and cppcms - booster::shared_mutex,
recursive_shared_mutex (nested shared acquisition), fork_shared_mutex (threads of one process + forked processes),
cppcms::impl::shared_mutex / impl::mutex (process shared), booster::mutex / recursive_mutex.
Leg D: spec/Thread/Locks.tla - pthread level + per-process record lock as separate steps; Excl, Backed, Progress.
       Locks_fork_bug.cfg shows the design defect of fork_shared_mutex in shared mode with several threads per process.
Leg B: lock_drv records Acq/Chk/Rel inside the real critical sections; LocksTrace.tla accepts only reader/writer exclusion."""
import os


def run(ctx):
    q = ctx.quick
    ctx.design("Thread/Locks.tla", "Locks_rw.cfg", workers=4, timeout=300, note="rw kind, 2x2 actors, nested shared depth 2: Excl, PthreadExcl, Progress")
    ctx.design("Thread/Locks.tla", "Locks_fork_1thr.cfg", workers=4, timeout=300, note="fork kind, 3 processes x 1 thread: Excl, FileExcl, Backed")
    ctx.design("Thread/Locks.tla", "Locks_fork_wonly.cfg", workers=4, timeout=300, note="fork kind, 2x2, unique mode only (prefork_acceptor): Excl, Backed")
    ctx.design("Thread/Locks.tla", "Locks_fork_bug.cfg", workers=4, timeout=300, expect_violation="Excl",
               note="fork kind, 2 processes x 2 threads, shared mode in use: Excl is violated (the record lock belongs to the process)")
    ctx.tlapm("Thread/tlaps/ForkLockProof.tla", note="TLAPS: fork_shared_mutex in unique mode only is exclusive for ANY number of processes and threads (39 obligations)")
    if not q:
        ctx.design("Thread/Locks.tla", "Locks_rw_big.cfg", workers=8, timeout=900, note="rw kind, 3x2 actors, depth 3")
        ctx.design("Thread/Locks.tla", "Locks_fork_big.cfg", workers=8, timeout=900, note="fork kind, 4 processes x 1 thread")
    exe = ctx.harness("lock_drv", ["thread/lock_drv.cpp"])
    ops = 150 if q else 1500
    runs = [("shared", 1, 4, ops, "rw", 3), ("shared", 1, 8, ops, "rw", 2), ("recursive", 1, 4, ops, "rw", 3), ("recursive", 1, 3, ops, "r", 1),
            ("mutex", 1, 4, ops, "w", 2), ("recmutex", 1, 4, ops, "w", 2),
            ("implshared", 1, 4, ops, "rw", 2), ("implshared", 3, 2, ops, "rw", 3), ("implshared", 4, 1, ops, "rw", 2),
            ("implmutex", 3, 2, ops, "w", 2),
            # fork_shared_mutex where its design is sound: one thread per process, or unique mode only
            ("fork", 3, 1, ops, "rw", 3), ("fork", 2, 3, ops, "w", 3), ("fork", 1, 4, ops, "rw", 2)]
    first = None
    for i, spec in enumerate(runs):
        t = os.path.join(ctx.work, "g06-%d.ndjson" % i)
        rc, out, err = ctx.run_harness(exe, spec, trace=t, timeout=600)
        if rc != 0:
            ctx.undecided.append("lock_drv %s rc=%s %s" % (spec, rc, err[-300:])); continue
        lines = open(t).read().splitlines()
        for ln in lines[:3000]:
            ctx.seen(spec[0] + ln.split('"e":')[1][:30])
        if i < 2:
            ctx.sample({"driver": list(spec), "first_events": lines[:6]})
        s = sort(ctx, t)
        if first is None:
            first = s
        for x in ctx.validate("Thread/LocksTrace.tla", "LocksTrace.cfg", s):
            ev = x["event"].split('"e":"')[1].split('"')[0] if '"e":"' in x["event"] else "end"
            ctx.violation("locks:%s:%s" % (spec[0], ev), "%s lock trace is not a behaviour of a reader/writer lock at %s" % (spec[0], x["event"][:160]), x["path"])
    # the deterministic sibling-reader scenario of fork_shared_mutex (see Locks_fork_bug.cfg)
    t = os.path.join(ctx.work, "g06-forkscript.ndjson")
    rc, out, err = ctx.run_harness(exe, ("forkscript",), trace=t, timeout=120)
    if rc != 0:
        ctx.undecided.append("lock_drv forkscript rc=%s %s" % (rc, err[-300:]))
    else:
        ctx.sample({"forkscript": open(t).read().splitlines()})
        for x in ctx.validate("Thread/LocksTrace.tla", "LocksTrace.cfg", sort(ctx, t)):
            ctx.violation("locks:fork:shared-lock-dropped-by-sibling-thread",
                          "fork_shared_mutex: a process whose thread T2 still holds the shared lock lost its record lock when T1 unlocked; another process got the unique lock: %s" % x["event"][:120], x["path"])
    if first:
        ctx.binding_selftest("Thread/LocksTrace.tla", "LocksTrace.cfg", first,
                             [("drop-rel", drop_nth('"e":"Rel"', 5)), ("swap-acq-w", move_up('"m":"w"', '"e":"Acq"')), ("torn", flip('"ok":true', '"ok":false', 7))])
    ctx.extra["rule"] = "executions = Reset-delimited runs of one lock object; events = Acq/Chk/Rel/TryFail lines validated by TLC"


def sort(ctx, t):
    import subprocess
    from vlib import ROOT
    s = t[:-7] + ".sorted.ndjson"
    subprocess.check_call([os.path.join(ROOT, "bin", "tracesort"), t, s])
    return s


def drop_nth(pat, k):
    def f(lines):
        c = 0
        for i, ln in enumerate(lines):
            if pat in ln:
                c += 1
                if c == k:
                    return lines[:i] + lines[i + 1:]
        return None
    return f


def flip(a, b, k):
    def f(lines):
        c = 0
        for i, ln in enumerate(lines):
            if a in ln:
                c += 1
                if c == k:
                    return lines[:i] + [ln.replace(a, b)] + lines[i + 1:]
        return None
    return f


def move_up(pat1, pat2):
    """move the first unique-mode Acq two events earlier (into the previous holder's critical section)"""
    def f(lines):
        for i, ln in enumerate(lines):
            if pat1 in ln and pat2 in ln and i > 3:
                return lines[:i - 2] + [ln] + lines[i - 2:i] + lines[i + 1:]
        return None
    return f
