"""G02 (growth, not a listed property): request life-cycle of http::context over a connection - one Dispatch and exactly
one response per ready request, a keep-alive connection is handed to a new context only after the previous response said
it is reusable, one Complete per Prepare, every context released exactly once and never while its response is owed."""
import os, subprocess
import harnesses
from vlib import ROOT


def run(ctx):
    ctx.design("Service/Service.tla", "Service.cfg", workers=4, timeout=300, note="2 connections, 3 context ids (addresses reused): OneLivePerConn, OwnerIsNewest")
    srcs, extra = harnesses.ALL["input_drv"]
    exe = ctx.harness("input_drv", srcs, extra=extra)
    jobs = [("c01", 0, 64), ("c02", "http", 0, 250), ("c02", "scgi", 0, 250), ("c02", "fcgi", 0, 250)]
    if not ctx.quick:
        jobs += [("c01", 7, 16), ("c02", "http", 250, 2000), ("c02", "fcgi", 250, 2000)]
    for i, args in enumerate(jobs):
        raw = os.path.join(ctx.work, "g02-%d.raw" % i); srt = os.path.join(ctx.work, "g02-%d.ndjson" % i)
        rc, out, err = ctx.run_harness(exe, args, trace=os.path.join(ctx.work, "own-%d.ndjson" % i),
                                       env={"CPPCMS_VERIF_TRACE": raw, "VERIF_HOOK_OUT": raw}, timeout=1500)
        if rc not in (0, 42) or not os.path.exists(raw):
            ctx.undecided.append("input_drv %s rc=%s %s" % (args, rc, (err or "")[-300:])); continue
        subprocess.check_call([os.path.join(ROOT, "bin", "tracesort"), raw, srt])
        lines = [x for x in open(srt).read().splitlines() if any(k in x for k in ('"CtxNew"', '"Prepare"', '"Complete"', '"Ready"', '"Dispatch"', '"AsyncComplete"', '"Resp"', '"CtxDel"'))]
        flt = os.path.join(ctx.work, "g02-%d.f.ndjson" % i)
        open(flt, "w").write("\n".join(lines) + "\n")
        if i == 0:
            ctx.sample({"driver": list(args), "first_events": lines[:10]})
        for ln in lines[:5000]:
            ctx.seen(ln.split('"e":')[1][:40].split(',"x"')[0])
        rej = ctx.validate("Service/ServiceTrace.tla", "ServiceTrace.cfg", flt, resets=False)
        if i == 0 and not rej:
            ctx.binding_selftest("Service/ServiceTrace.tla", "ServiceTrace.cfg", flt,
                                 [("drop-complete", drop_nth('"e":"Complete"', 3)), ("dup-resp", dup_nth('"e":"Resp"', 4)), ("drop-ctxnew", drop_nth('"e":"CtxNew"', 5))])
        for x in rej:
            ctx.violation("service:%s" % x["event"].split('"e":"')[1].split('"')[0], "request life-cycle trace rejected at %s" % x["event"][:160], x["path"])


def drop_nth(pat, k):
    def f(lines):
        c = 0
        for i, ln in enumerate(lines):
            if pat in ln:
                c += 1
                if c == k:
                    return lines[:i] + lines[i + 1:]
        return None
    return f


def dup_nth(pat, k):
    def f(lines):
        c = 0
        for i, ln in enumerate(lines):
            if pat in ln:
                c += 1
                if c == k:
                    return lines[:i + 1] + [ln] + lines[i + 1:]
        return None
    return f
