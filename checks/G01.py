"""G01 (growth, not a listed property): application_specific_pool - an application object is used by at most
one request at a time, the pool of N holds at most N live objects, nothing leaks (DESIGN.md 7 item 2, 9.6)."""
import os, subprocess
from vlib import ROOT


def run(ctx):
    ctx.assumptions.append("at most worker_threads synchronous applications are outstanding (the framework fetches them inside the worker thread)")
    ctx.design("Service/AppPool.tla", "AppPool_framework.cfg", workers=2, timeout=300, note="N=2, <=N outstanding, put() as coded")
    ctx.design("Service/AppPool.tla", "AppPool_overflow_fixed.cfg", workers=2, timeout=300, note="N=2, 3 outstanding, put() with the missing return")
    ctx.design("Service/AppPool.tla", "AppPool_overflow_ascoded.cfg", workers=2, timeout=300, expect_violation="PoolSound", count=False,
               note="put() as coded with more than N outstanding stores a deleted object past the end (latent, see DESIGN 9.3)")
    exe = ctx.harness("apppool_drv", ["service/apppool_drv.cpp"])
    for i, spec in enumerate([(3, 6, 300, "pool"), (2, 5, 200, "tls"), (4, 8, 200, "prepop"), (1, 4, 200, "pool")]):
        raw = os.path.join(ctx.work, "ap-%d.raw" % i); srt = os.path.join(ctx.work, "ap-%d.ndjson" % i)
        rc, out, err = ctx.run_harness(exe, spec, trace=raw, timeout=600)
        if rc != 0:
            ctx.undecided.append("apppool_drv %s rc=%s %s" % (spec, rc, err[-300:])); continue
        subprocess.check_call([os.path.join(ROOT, "bin", "tracesort"), raw, srt])
        if i == 0:
            ctx.sample({"driver(workers,users,ops,mode)": list(spec), "first_events": open(srt).read().splitlines()[:8]})
        for ln in open(srt).read().splitlines()[:3000]:
            ctx.seen(ln.split('"e":')[1][:30])
        for x in ctx.validate("Service/AppPoolTrace.tla", "AppPoolTrace.cfg", srt):
            ctx.violation("apppool:%s" % x["event"].split('"e":"')[1].split('"')[0], "application pool trace rejected at %s" % x["event"][:160], x["path"])
