"""C08 - the cache stays within its limit; evicts expired first, then least recently used.
Leg D: Cache.tla (Bound, OrderInv, EvictRule, OnlyStoreEvicts) + CacheImpl.tla (four-index
       mechanism, IndexInv, refinement of Cache) + Buddy.tla (shared-memory allocator).
Leg B: real caches with limits 1..8, strict acceptance (CacheTrace.tla): every fetch result and
       every stats() pair must be the one implied by the history under the eviction rule.
"""
import os


def run(ctx):
    q = ctx.quick
    ctx.assumptions += [
        "virtual clock via time() interposition",
        "ties among several expired entries are left free (any expired victim is accepted)",
        "process-shared runs under memory pressure (driver mode bigrand) are judged with the named deviations of CacheTrace.tla: extra victims (each by the rule), dropped store, clear on allocation failure",
    ]
    ctx.design("Cache/Cache.tla", "Cache08_quick.cfg" if q else "Cache08.cfg", workers=16, timeout=1500, heap="16g")
    ctx.design("Cache/Cache.tla", "Cache_shared_quick.cfg", workers=12, timeout=900,
               note="process-shared deviations as named actions (extra victims by the rule, dropped store, clear): EvictOrder + all invariants")
    import cacheimpl
    cacheimpl.run(ctx)
    buddy(ctx)
    pressure_scripts(ctx)
    fragmentation_scripts(ctx)
    exe = ctx.harness("cache_drv", ["cache/cache_drv.cpp"])
    runs = []
    if q:
        for be in ("thread", "process"):
            for lim in (1, 2, 3, 5, 8):
                runs.append(("rand", be, lim, lim + 3, 400, 12))
        runs.append(("exh", "thread", 1, 3, 2))
        runs.append(("exh", "process", 2, 3, 2))
    else:
        for be in ("thread", "process"):
            for lim in (1, 2, 3, 4, 5, 6, 7, 8):
                runs.append(("rand", be, lim, lim + 2, 300, 60))
                runs.append(("rand", be, lim, 16, 5000, 8))
        for lim in (1, 2):
            runs.append(("exh", "thread", lim, 3, 3))
            runs.append(("exh", "process", lim, 3, 3))
    # large key alphabet with a limit well above 64 (hash-table growth / collisions)
    runs.append(("rand", "thread", 100, 300, 2500 if q else 8000, 1))
    for be in ("thread", "process"):
        runs.append(("collide", be, 3, 8, 400 if q else 3000, 6 if q else 20))
        runs.append(("collide", be, 6, 14, 400 if q else 3000, 4 if q else 20))
    runs.append(("rand", "process", 150, 300, 2500 if q else 8000, 1))
    # process-shared cache under memory pressure (values comparable to the 1 MiB segment): a store may evict several
    # entries / be dropped / clear the cache - every victim must still follow "expired first, then least recently used"
    if q:
        runs += [("bigrand", "process", 0, 12, 300, 4, 60000), ("bigrand", "process", 4, 8, 300, 4, 120000)]
    else:
        runs += [("bigrand", "process", lim, names, 300, 10, mx) for (lim, names, mx) in ((0, 12, 60000), (4, 8, 120000), (8, 12, 200000), (0, 6, 30000), (2, 16, 90000))]
    n = 0
    for spec in runs:
        n += 1
        t = os.path.join(ctx.work, "c08-%d.ndjson" % n)
        env = {}
        if spec[0] == "collide":
            # every key / trigger name in ONE bucket chain of the hash indexes (erase in the middle of a chain, long chains)
            env = {"VERIF_COLLIDE": "1"}
            spec = ("rand",) + tuple(spec[1:])
        rc, out, err = ctx.run_harness(exe, spec, trace=t, timeout=900, env=env)
        if rc != 0:
            if rc in (-11, -6, -7, -8, 134, 139):
                # the real cache crashed (SIGSEGV/SIGABRT/...) in a single-threaded, valid operation sequence
                rp = os.path.join(ctx.replays, "cache-crash-%d.txt" % n)
                body = open(t).read()[-6000:] if os.path.exists(t) else ""
                open(rp, "w").write("cache_drv %s rc=%s\n%s\n--- last events ---\n%s" % (" ".join(map(str, spec)), rc, err[-2000:], body))
                ctx.violation("cache:crash", "the cache crashed (signal %d) in a sequential operation sequence: cache_drv %s" % (abs(rc) if rc < 0 else rc - 128, " ".join(map(str, spec))), rp)
                continue
            ctx.undecided.append("cache_drv %s failed rc=%s %s" % (spec, rc, err[-500:]))
            continue
        with open(t) as f:
            lines = f.readlines()
        for ln in lines[:4000]:
            ctx.seen(ln[:80])
        if n <= 3:
            ctx.sample({"driver": list(spec), "first_events": [x.strip() for x in lines[:6]]})
        cfg = "CacheTraceP.cfg" if spec[0] == "bigrand" else ("CacheTrace_big.cfg" if spec[3] > 16 else "CacheTrace.cfg")
        for x in validate2(ctx, cfg, t):
            ctx.violation("trace08:%s" % sig(x), "cache trace not a behaviour of Cache (C08 strict) at %s" % x["event"][:160], x["path"])
        os.remove(t)
    ctx.extra["rule"] = ("executions = Reset-delimited operation sequences run against the real cache with stats() after each; "
                         "distinct = distinct event texts among the first 4000 events of each driver run")


def validate2(ctx, cfg, t):
    """first with the search heuristic VERIF_STRICT (expired victims in deadline order: little branching); an execution
    rejected that way is judged again without it - only that verdict counts (any expired victim is legal)."""
    out = []
    for x in ctx.validate("Cache/CacheTrace.tla", cfg, t, dfs=True, env={"VERIF_STRICT": "1"}):
        again = ctx.validate("Cache/CacheTrace.tla", cfg, x["path"], dfs=True, timeout=1500)
        if again:
            out.append(x)
        else:
            ctx.drift.append("expired victims not taken in deadline order (legal; slower search) at %s" % x["event"][:120])
    return out


def pressure_scripts(ctx):
    """deterministic memory-pressure scenarios for the process-shared cache: one expired entry, several big live ones whose
    recency order differs from their deadline order, then big stores that force several evictions in ONE store():
    the victims must be the expired entry first and then the least recently used ones (CacheTrace.tla, named deviations)."""
    exe = ctx.harness("cache_drv", ["cache/cache_drv.cpp"])
    variants = [(120000, 0, 5, (3,)), (120000, 8, 5, (3, 5)), (60000, 0, 11, (4, 9)), (120000, 16, 5, ())]
    if not ctx.quick:
        variants += [(30000, 0, 24, (5, 17, 6)), (120000, 6, 5, (7, 3)), (60000, 12, 11, (13, 3, 8)), (200000, 0, 2, (3,))]
    for i, (big, lim, n, touched) in enumerate(variants):
        sc = "pressure\nbigstore 1 1 50\n"
        for j in range(n):
            sc += "bigstore %d %d %d\n" % (3 + j, 100 - j, big)
        sc += "bigstore 2 5 60\n"
        for k in touched:
            sc += "fetch %d\n" % k
        sc += "fetch 2\ntick 2\n"
        for j in range(3):
            sc += "bigstore %d 50 %d\n" % (3 + n + j, big)
        for k in range(1, 3 + n + 3):
            sc += "fetch %d\n" % k
        t = os.path.join(ctx.work, "pressure-%d.ndjson" % i)
        rc, out, err = ctx.run_harness(exe, ("script", "process", lim, 3 + n + 3), trace=t, stdin=sc, timeout=300)
        if rc != 0:
            ctx.undecided.append("pressure script %d failed rc=%s %s" % (i, rc, err[-300:])); continue
        if i == 0:
            ctx.sample({"pressure-script": [x for x in open(t).read().splitlines() if '"Store"' in x][-4:]})
        cfg = "CacheTraceP.cfg" if 3 + n + 3 <= 16 else "CacheTraceP_big.cfg"
        for x in validate2(ctx, cfg, t):
            ctx.violation("pressure:%s" % sig(x), "process-shared cache under memory pressure: not a behaviour of Cache (eviction order / stats) at %s" % x["event"][:160], x["path"])
        os.remove(t)


def fragmentation_scripts(ctx):
    """fragmented segment: the segment is filled with small values, every other survivor is made recently used (the LRU
    order then alternates in memory, so evictions leave non-adjacent holes), more small values are stored, and finally
    medium values (two holes wide, below segment/40) arrive: room has to be made for them - they must not be dropped."""
    exe = ctx.harness("cache_drv", ["cache/cache_drv.cpp"])
    variants = [(12000, 20000, 70, 40, 12)]
    if not ctx.quick:
        variants += [(10000, 24000, 80, 50, 10), (6000, 10000, 150, 80, 16), (12000, 26000, 70, 60, 8)]
    for i, (small, mid, nfill, nmore, nmid) in enumerate(variants):
        sc = "pressure\n"
        k = 0
        for j in range(nfill):
            k += 1; sc += "bigstore %d 1000 %d\n" % (k, small)
        for j in range(1, k + 1, 2):
            sc += "fetch %d\n" % j
        for j in range(nmore):
            k += 1; sc += "bigstore %d 1000 %d\n" % (k, small)
            if j % 3 == 2:
                for x in range(k - 1, max(0, k - 40), -2):
                    sc += "fetch %d\n" % x
        for j in range(nmid):
            k += 1; sc += "bigstore %d 1000 %d\nfetch %d\n" % (k, mid, k)
        t = os.path.join(ctx.work, "frag-%d.ndjson" % i)
        rc, out, err = ctx.run_harness(exe, ("script", "process", 0, k), trace=t, stdin=sc, timeout=300)
        if rc != 0:
            ctx.undecided.append("fragmentation script %d failed rc=%s %s" % (i, rc, err[-300:])); continue
        for x in validate2(ctx, "CacheTraceP_big.cfg", t):
            ctx.violation("fragmented:%s" % sig(x), "process-shared cache with a fragmented segment: a medium value was not kept / not a behaviour of Cache at %s" % x["event"][:160], x["path"])
        os.remove(t)


def buddy(ctx):
    """memory release: allocator model + real buddy_allocator traces + fill/empty/refill cycles of the shared-memory cache"""
    ctx.design("Cache/Buddy.tla", "Buddy.cfg", workers=8, timeout=900, note="arena 46 units = 32+8+4+2, <=4 live blocks: Tiling, NoOverlap, NoFreeBuddies, Refill")
    exe = ctx.harness("buddy_drv", ["cache/buddy_drv.cpp"])
    for size, ops, rounds in ([(4000, 300, 3), (65000, 800, 2)] if ctx.quick else [(4000, 2000, 10), (65000, 4000, 6)]):
        t = os.path.join(ctx.work, "buddy-%d.ndjson" % size)
        rc, out, err = ctx.run_harness(exe, (size, ops, rounds), trace=t, timeout=600)
        if rc != 0:
            rp = os.path.join(ctx.replays, "buddy-crash-%d.txt" % size)
            open(rp, "w").write(err[-3000:])
            ctx.violation("buddy:crash", "buddy_allocator driver died: %s" % err[-200:], rp)
            continue
        for x in ctx.validate("Cache/BuddyTrace.tla", "BuddyTrace_%d.cfg" % size, t):
            ctx.violation("buddy:%s" % x["event"].split('"')[3], "allocator trace is not a behaviour of Buddy at %s" % x["event"][:160], x["path"])
        os.remove(t)
    cexe = ctx.harness("cache_drv", ["cache/cache_drv.cpp"])
    # long streams of distinct keys, no clear(): what an evicted entry leaves behind must not accumulate
    for be, lim, cnt, vs in ([("process", 4, 15000, 100), ("thread", 3, 4000, 100)] if ctx.quick else [("process", 4, 80000, 100), ("process", 8, 40000, 300), ("process", 2, 60000, 40), ("thread", 4, 40000, 100)]):
        t = os.path.join(ctx.work, "stream-%s-%d.ndjson" % (be, lim))
        rc, out, err = ctx.run_harness(cexe, ("stream", be, lim, 0, cnt, vs), trace=t, timeout=600)
        if rc != 0:
            rp = os.path.join(ctx.replays, "stream-crash-%s.txt" % be)
            open(rp, "w").write(err[-3000:])
            ctx.violation("stream:crash", "distinct-key stream driver died: %s" % err[-200:], rp)
            continue
        for x in ctx.validate("Cache/RefillTrace.tla", "RefillTrace.cfg", t):
            ctx.violation("stream:%s" % be, "cache does not release what evicted entries leave behind: %s" % x["event"][:160], x["path"])
        os.remove(t)
    for vsize in ((700,) if ctx.quick else (100, 700, 5000, 40000)):
        t = os.path.join(ctx.work, "refill-%d.ndjson" % vsize)
        rc, out, err = ctx.run_harness(cexe, ("refill", "process", 4000, 5, 12 if ctx.quick else 60, vsize), trace=t, timeout=600)
        if rc != 0:
            rp = os.path.join(ctx.replays, "refill-crash-%d.txt" % vsize)
            open(rp, "w").write(err[-3000:])
            ctx.violation("refill:crash", "fill/clear/refill driver died: %s" % err[-200:], rp)
            continue
        lines = open(t).read().splitlines()
        ctx.sample({"refill": lines[:3]})
        for x in ctx.validate("Cache/RefillTrace.tla", "RefillTrace.cfg", t):
            ctx.violation("refill:%s" % x["event"].split('"')[3], "shared-memory cache does not release memory: %s" % x["event"][:160], x["path"])
        os.remove(t)


def sig(x):
    import json
    try:
        ev = json.loads(x["event"])
        return "%s@%d" % (ev.get("e"), x["offset_in_exec"])
    except Exception:
        return "end"
