"""C08 - the cache stays within its limit; evicts expired first, then least recently used.
Leg D: Cache.tla (Bound, OrderInv, EvictRule, OnlyStoreEvicts) + CacheImpl.tla (four-index
       mechanism, IndexInv, refinement of Cache) + Buddy.tla (shared-memory allocator).
Leg B: real caches with limits 1..8, strict acceptance (CacheTrace.tla): every fetch result and
       every stats() pair must be the one implied by the history under the eviction rule.
"""
import os


def run(ctx):
    q = ctx.quick
    ctx.assumptions += [
        "virtual clock via time() interposition",
        "ties among several expired entries are left free (any expired victim is accepted)",
        "process-shared runs use a 1 MiB segment and values <= 100 bytes: the out-of-memory deviations (dropped store, clear on bad_alloc) are not triggered by these drivers",
    ]
    ctx.design("Cache/Cache.tla", "Cache08_quick.cfg" if q else "Cache08.cfg", workers=16, timeout=1500, heap="16g")
    import cacheimpl
    cacheimpl.run(ctx)
    exe = ctx.harness("cache_drv", ["cache/cache_drv.cpp"])
    runs = []
    if q:
        for be in ("thread", "process"):
            for lim in (1, 2, 3, 5, 8):
                runs.append(("rand", be, lim, lim + 3, 400, 12))
        runs.append(("exh", "thread", 1, 3, 2))
        runs.append(("exh", "process", 2, 3, 2))
    else:
        for be in ("thread", "process"):
            for lim in (1, 2, 3, 4, 5, 6, 7, 8):
                runs.append(("rand", be, lim, lim + 2, 300, 60))
                runs.append(("rand", be, lim, 16, 5000, 8))
        for lim in (1, 2):
            runs.append(("exh", "thread", lim, 3, 3))
            runs.append(("exh", "process", lim, 3, 3))
    n = 0
    for spec in runs:
        n += 1
        t = os.path.join(ctx.work, "c08-%d.ndjson" % n)
        rc, out, err = ctx.run_harness(exe, spec, trace=t, timeout=900)
        if rc != 0:
            ctx.undecided.append("cache_drv %s failed rc=%s %s" % (spec, rc, err[-500:]))
            continue
        with open(t) as f:
            lines = f.readlines()
        for ln in lines[:4000]:
            ctx.seen(ln[:80])
        if n <= 3:
            ctx.sample({"driver": list(spec), "first_events": [x.strip() for x in lines[:6]]})
        rej = ctx.validate("Cache/CacheTrace.tla", "CacheTrace.cfg", t, dfs=True)
        for x in rej:
            ctx.violation("trace08:%s" % sig(x), "cache trace not a behaviour of Cache (C08 strict) at %s" % x["event"][:160], x["path"])
        os.remove(t)
    ctx.extra["rule"] = ("executions = Reset-delimited operation sequences run against the real cache with stats() after each; "
                         "distinct = distinct event texts among the first 4000 events of each driver run")


def sig(x):
    import json
    try:
        ev = json.loads(x["event"])
        return "%s@%d" % (ev.get("e"), x["offset_in_exec"])
    except Exception:
        return "end"
