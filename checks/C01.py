"""C01 - every front-end (HTTP, SCGI, FastCGI) delivers the request the peer sent, however it is segmented.
Leg D: spec/Input/Input.tla - the incremental parsers of the three front-ends (mechanism layer) fed with every
       cut of the byte stream of every short request; SegInv (done => obs = Reference(req)) and CrossInv.
Leg B: harness/input/input_drv.cpp hosts the real front-ends (accept(fd) seam), sends ~40 short and a few long
       requests per protocol in every single cut / many 2- and multi-cuts (each segment handed over only after the
       front-end consumed the previous one), keep-alive chains on HTTP; InputTrace.tla accepts iff the logged wire
       bytes decode (TLA+ decoders) to the abstract request and every observation equals Reference(request).
"""
import os, json
import inputlib


def run(ctx):
    q = ctx.quick
    ctx.assumptions += [
        "well-formed requests only: distinct header names, balanced quoted strings/comments in header values, "
        "k=v(&k=v)* form strings with valid %XX escapes, RFC 2109 style cookies (token or quoted-string values)",
        "server-side CGI variables (SERVER_*, REMOTE_*, GATEWAY_INTERFACE) are sent by the gateway for SCGI/FastCGI and "
        "derived by the embedded HTTP server; the harness configures them to coincide",
        "segments are handed to the front-end one at a time (FIONREAD on a dup of the served descriptor tells when the "
        "previous one was consumed); acceptance never depends on the actual segmentation",
        "Obs lines group the cut patterns that produced byte-identical echo replies (loss-free compression)",
    ]
    # ---- Leg D
    w = 6 if q else 16
    if q:
        runs = [("InputHttp_quick.cfg", "http: quick request family, read sizes 1..3 and 'all available', keep-alive pairs"),
                ("InputScgi_quick.cfg", "scgi: read sizes 1..3 and 'all available'"),
                ("InputFcgi_quick.cfg", "fcgi: 6 record-boundary/padding/length-form combinations per request")]
    else:
        runs = [("InputHttp_full.cfg", "http: full request family x folding, read sizes 1..6 and 'all available', keep-alive pairs"),
                ("InputHttp_allcuts.cfg", "http: quick family, EVERY read size at every position"),
                ("InputScgi_full.cfg", "scgi: EVERY read size at every position"),
                ("InputFcgi_full.cfg", "fcgi: padding 0..7 x 9 kinds of PARAMS/STDIN record boundaries x both length forms, read sizes 1..4 and all"),
                ("InputFcgi_cache.cfg", "fcgi: 24-byte read-ahead cache (compaction and growth paths), EVERY read size")]
    for cfg, note in runs:
        ctx.design("Input/Input.tla", cfg, workers=w, timeout=1700, heap="12g", note="SegInv, NotStuck, CrossInv; " + note)
    # ---- Leg B
    exe = ctx.harness(*inputlib.HARNESS)
    nsh = 4 if q else 8
    traces = [os.path.join(ctx.work, "c01-%d.ndjson" % i) for i in range(nsh)]
    stats = [None] * nsh
    died = []

    def drive(i):
        def f():
            rc, out, err = ctx.run_harness(exe, ["c01", i, nsh], trace=traces[i], timeout=1500)
            if rc < 0 or rc in (42, 134, 139):
                # the process hosting the real front-ends was killed by a signal while serving WELL-FORMED requests
                rp = os.path.join(ctx.replays, "c01-died-shard%d.txt" % i)
                open(rp, "w").write("input_drv c01 %d %d rc=%s\n%s" % (i, nsh, rc, (err or "")[-4000:]))
                died.append((rc, rp))
                # keep only the complete executions of the truncated trace
                if os.path.exists(traces[i]):
                    lines = open(traces[i]).read().split("\n")[:-1]
                    last = max([k for k, ln in enumerate(lines) if '"e":"Reset"' in ln] or [0])
                    open(traces[i], "w").write("\n".join(lines[:last]) + ("\n" if last else ""))
                return None
            if rc != 0:
                return "input_drv c01 shard %d failed rc=%s %s" % (i, rc, (err or "")[-500:])
            stats[i] = json.loads(out.strip().splitlines()[-1])
            return None
        return f
    for r in inputlib.parallel([drive(i) for i in range(nsh)], nsh):
        if r:
            ctx.undecided.append(str(r))
    for rc, rp in died:
        ctx.violation("c01-service-died-sig%d" % abs(rc), "the process serving well-formed requests died (signal %d): %s" % (abs(rc), open(rp).read()[-300:].replace("\n", " ")), rp)
    conns = sum(s["connections"] for s in stats if s)
    ctx.extra["connections"] = conns
    ctx.extra["cut_points_sent"] = sum(s["cut_points"] for s in stats if s)
    ctx.extra["cut_points_confirmed_consumed"] = sum(s["confirmed"] for s in stats if s)

    subs = [inputlib.SubCtx(ctx, "v%d" % i) for i in range(nsh)]

    def val(i):
        def f():
            if not os.path.exists(traces[i]):
                return []
            return subs[i].c.validate("Input/InputTrace.tla", "InputTrace.cfg", traces[i], timeout=1500, heap="6g",
                                      env={"JAVA_TOOL_OPTIONS": "-Xss16m"})
        return f
    results = inputlib.parallel([val(i) for i in range(nsh)], 4)
    seen = set()
    for i, rej in enumerate(results):
        subs[i].merge()
        if isinstance(rej, Exception):
            ctx.undecided.append("validation crashed: %r" % rej)
            continue
        for x in rej:
            sig, desc = classify(x)
            if sig is None:
                ctx.undecided.append(desc)
            elif sig not in seen:
                seen.add(sig)
                ctx.violation(sig, desc, x["path"])
    # evidence
    nreq = nobs = 0
    for t in traces:
        if not os.path.exists(t):
            continue
        for ln in open(t):
            if '"e":"Req"' in ln:
                nreq += 1
                if nreq <= 2:
                    ctx.sample(ln[:400])
                ctx.seen(ln[:80])
            elif '"e":"Obs"' in ln:
                nobs += 1
                m = ln.find('"n":')
                ctx.seen(ln[:40] + ln[m:m + 12])
    ctx.extra["requests_encoded"] = nreq
    ctx.extra["distinct_observation_groups"] = nobs
    ctx.extra["rule"] = ("executions = one abstract request (or keep-alive chain) sent over every front-end / encoding variant in all "
                         "listed cut patterns; evaluations = trace lines judged by TLC (one Obs line stands for all connections with a "
                         "byte-identical echo reply; 'connections' is the number of connections actually served)")


def classify(x):
    try:
        ev = json.loads(x["event"])
    except Exception:
        return None, "unparsable rejected line %s" % x["event"][:200]
    if ev.get("e") == "Req":
        # the harness' encoder and the TLA+ decoder disagree about a well-formed request: a model problem
        return None, "wire binding failed for Req id=%s proto=%s var=%s (encoder/decoder disagreement)" % (ev.get("id"), ev.get("proto"), ev.get("var"))
    if ev.get("e") != "Obs":
        return None, "trace not matched at %s" % x["event"][:200]
    req = None
    groups = 0
    for ln in x["exec"][:x["offset_in_exec"] + 1]:
        if '"e":"Req"' in ln:
            req = json.loads(ln)
            groups = 0
        elif '"e":"Obs"' in ln:
            groups += 1
    o = ev["o"]
    if any(oo["status"] != 200 or not oo["ok"] for oo in o):
        kind = "not-delivered"
    elif groups > 1:
        kind = "segmentation-dependent"
    else:
        kind = "wrong-observation"
    rid = req.get("id") if req else "?"
    cuts = ev.get("cuts", [])[:3]
    return ("c01-%s-%s-req%s" % (ev.get("proto"), kind, rid),
            "%s front-end: observation of request id=%s (variant %s) is not the reference one for %d cut pattern(s), e.g. cuts %s" % (
                ev.get("proto"), rid, req.get("var") if req else "?", ev.get("n", 0), cuts))
