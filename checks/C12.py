"""C12 - uploaded form data is reconstructed exactly under any chunking, within limits.

Leg D: spec/Form/Multipart.tla - the incremental multipart parser + read loop of http::request, one
       byte per step, every body over the byte classes CR LF DASH B X (+H = a header line) and every
       partition into chunks explored by TLC; invariants Exact / Accepts / AllOrNothing / Progress
       against the declarative FormRef!Split.  Seeded faults of the model must be caught (self-test).
Leg B: harness/form/form_drv.cpp drives cppcms::impl::multipart_parser directly and
       cppcms::http::request through a memory connection; every (input, outcome) line must satisfy
       spec/Form/FormTrace.tla (Exact, AllOrNothing, FilterOnce incl. what a reading / seeking / aborting filter
       observes, Spill).  spec/Form/FilterObs.tla is the small design model of "filter reads are observations only".
"""
import os, json
import pvalidate as pv


def _b(v):
    try:
        return bytes(v).decode("latin1")
    except Exception:
        return str(v)


def describe(evline):
    try:
        e = json.loads(evline)
    except Exception:
        return evline[:200]
    if e.get("e") == "Parse":
        return "multipart_parser boundary=%r body=%r cut=%s -> ok=%s parts=%s" % (
            _b(e["bnd"]), _b(e["b"]), e.get("cut"), e.get("ok"),
            [(_b(p["n"]), _b(p["f"]), _b(p["m"]), _b(p.get("d", []))) for p in e.get("parts", [])])
    body = repr(_b(e["b"])) if "b" in e else "<%d bytes, digest %s>" % (e.get("blen", -1), e.get("bdig"))
    post = [(_b(p["n"]), _b(p["d"]) if "d" in p else p["len"]) for p in e.get("post", [])]
    files = [(_b(p["n"]), _b(p["f"]), _b(p["m"]), _b(p["d"]) if "d" in p else p["len"]) for p in e.get("files", [])]
    return ("POST ct=%s boundary=%r body=%s declared=%s limits(cl=%s,mp=%s,mem=%s) filter=%s buf=%s reads=%s -> status=%s app_ran=%s post=%s files=%s "
            "raw=%s mpf=%s tmp(during=%s,after=%s) filter-policy=%s abort=%s fired=%s") % (
        e.get("ct"), _b(e.get("bnd", [])), body, e.get("decl"), e.get("cl"), e.get("mp"), e.get("mem"), e.get("flt"), e.get("buf"),
        e.get("cut"), e.get("st"), e.get("ran"), post, files,
        {k: v for k, v in e.get("raw", {}).items() if k in ("len", "calls", "eoc", "err")},
        {k: (v if k not in ("cbs", "obs") else len(v)) for k, v in e.get("mpf", {}).items()}, e.get("tmpd"), e.get("tmpa"),
        e.get("pol"), e.get("ab"), e.get("fired"))


def signature(evline, side):
    try:
        e = json.loads(evline)
    except Exception:
        return "end-of-trace"
    if e.get("e") == "Parse":
        if side == "hl" and e.get("ok"):
            return "multipart-headerless-part-content-swallowed"
        return "parser:ok=%s" % str(e.get("ok")).lower()
    if side == "mal" and e.get("ct") == "url" and e.get("st") == 200:
        return "urlencoded-malformed-delivered-in-part"
    if side == "hl" and e.get("ct") == "mp" and e.get("st") == 200:
        return "multipart-headerless-part-content-swallowed"
    flt = e.get("flt")
    if any(e.get("pol", {}).get("rd", [])):
        flt += "+read"
    if e.get("fired"):
        flt += "+abort"
    return "upload:%s:%s:st%s" % (e.get("ct"), flt, e.get("st"))


def run(ctx):
    q = ctx.quick
    W = 8
    ctx.assumptions += [
        "named restrictions of the code (refusal is what the property permits): no preamble before the first delimiter, "
        "no epilogue after the close-delimiter, no transport padding after a boundary, the closing CRLF ends a read chunk",
        "a part whose header block has lines but no Content-Disposition is delivered under the empty name (leniency, everything is delivered)",
        "a part with an EMPTY header block (delimiter CRLF CRLF) is legal and, like any part without Content-Disposition, delivered under the "
        "empty name; its content must be exactly what follows the CRLF ending the empty block (RFC 2046) - content shortened by a "
        "swallowed pseudo-header is reported as multipart-headerless-part-content-swallowed (such inputs are validated from a side trace)",
        "header lines are interpreted through the table logged by the encoder; a line with ':' the encoder did not produce makes the spec silent",
        "urlencoded: malformed = what request::parse_form_urlencoded itself rejects (piece without '=' or with empty name); "
        "a '%' not followed by two hex digits is outside the property (spec silent)",
        "peer closing before the declared length: no status can be sent, 'aborted without delivery' (status 0) counts as refusal",
        "big bodies (> 380 bytes): ground truth is the part list the harness encoded; lengths + 4x16-bit digests are compared by TLC",
        "refusal codes 400 and 413 are not distinguished (the property lumps them)",
        "content filters are driven as the API allows: a multipart_filter that reads 0 / k / all bytes of file::data() (streambuf sgetn, or "
        "istream::read followed by clear()), from the current or a chosen position, in on_new_file / on_upload_progress / on_data_ready and - through "
        "saved file references - in on_end_of_content, for fields and files, in memory and spilled; its reads must be the prefix received so far and "
        "must not change post()/files(); a filter that leaves failbit set on file::data() is not driven; abort_upload(code) from any call-back of "
        "either filter kind => that status, nothing delivered, no on_error",
    ]
    X = ["-noGenerateSpecTE"]
    # ------------------------------------------------------------------ Leg D (runs in a thread next to Leg B)
    import threading
    td = threading.Thread(target=leg_d, args=(ctx, q, W, X))
    td.start()
    try:
        leg_b(ctx, q)
    finally:
        td.join()


def leg_d(ctx, q, W, X):
    ctx.design("Form/Multipart.tla", "Multipart_quick.cfg" if q else "Multipart.cfg", workers=W, timeout=1500, heap="6g",
               deadlock_off=True, extra=X, note="bodies = 4 starting points x all tails over {CR,LF,-,B,X,(H)} x every chunking x declared length")
    if not q:
        ctx.design("Form/Multipart.tla", "Multipart_B8.cfg", workers=W, timeout=1500, heap="6g", deadlock_off=True, extra=X,
                   note="boundary B only, tails up to 8")
    ctx.design("Form/Multipart.tla", "Multipart_limits.cfg", workers=W, timeout=600, deadlock_off=True, extra=X,
               note="part-size limit 0..2 around the part sizes")
    ctx.design("Form/FilterObs.tla", "FilterObs.cfg", workers=2, timeout=300, deadlock_off=True, extra=X,
               note="one part: parser writes, filter seeks/reads in any call-back, read_file delivers: ObsExact, Untouched")
    ctx.design("Form/FilterObs.tla", "FilterObs_mut_noseek.cfg", workers=2, timeout=300, deadlock_off=True, extra=X, expect_violation="Untouched",
               count=False, note="self-test: read_file without rewind must violate Untouched")
    for cfg, inv in (("Multipart_mut_restart0.cfg", "Progress"), ("Multipart_mut_dropprefix.cfg", "Progress"),
                     ("Multipart_mut_limitge.cfg", "AllOrNothing"), ("Multipart_mut_swallow.cfg", "Progress")):
        ctx.design("Form/Multipart.tla", cfg, workers=W, timeout=600, deadlock_off=True, extra=X, expect_violation=inv, count=False,
                   note="self-test: seeded fault in the model must violate " + inv)


def leg_b(ctx, q):
    # ------------------------------------------------------------------ Leg B
    seen_sig = set()
    exe = ctx.harness("form_drv", ["form/form_drv.cpp"])
    if q:
        jobs = [("seeds", ["seeds"]), ("filt", ["filt"])]
        jobs += [("parser%d" % b, ["parser", 5, 2, b]) for b in range(3)]
        jobs += [("reqexh%d" % b, ["reqexh", 4, 1, b]) for b in range(3)]
        jobs += [("urlexh", ["urlexh", 5])]
        jobs += [("rand%d" % i, ["rand", 600, 16384, 50], {"VERIF_SEED": str(ctx.seed * 10 + i)}) for i in range(3)]
    else:
        jobs = [("seeds", ["seeds"]), ("filt", ["filt"])]
        jobs += [("parser%d" % b, ["parser", 6, 2, b]) for b in range(3)]
        jobs += [("reqexh%d" % b, ["reqexh", 5, 1, b]) for b in range(3)]
        jobs += [("urlexh", ["urlexh", 6])]
        jobs += [("rand%d" % i, ["rand", 6000, 262144, 30], {"VERIF_SEED": str(ctx.seed * 10 + i)}) for i in range(6)]
    stats = {"bodies": 0, "runs": 0}

    def job(j):
        name, args = j[0], j[1]
        env = j[2] if len(j) > 2 else {}
        c = pv.sub(ctx, name)
        t = os.path.join(c.work, name + ".ndjson")
        rc, out, err = c.run_harness(exe, args, trace=t, env=env, timeout=1500)
        if rc != 0:
            ctx.undecided.append("form_drv %s failed rc=%s %s" % (args, rc, (err or out)[-800:]))
            return
        try:
            kv = dict(x.split("=") for x in out.split())
            with pv._lock:
                stats["bodies"] += int(kv.get("bodies", 0))
                stats["runs"] += int(kv.get("runs", 0))
        except Exception:
            pass
        for side, path, maxrej in (("main", t, 4), ("hl", t + ".hl", 1), ("mal", t + ".mal", 1)):
            if not os.path.exists(path) or os.path.getsize(path) == 0:
                continue
            with open(path) as f:
                lines = f.readlines()
            with pv._lock:
                for ln in lines[:3000]:
                    try:
                        e = json.loads(ln)
                        ctx.seen((e.get("e"), e.get("ct"), e.get("flt"), e.get("st"), e.get("ok"), "b" in e, len(e.get("post", [])), len(e.get("files", [])),
                                  e.get("decl", 0) - e.get("blen", 0), e.get("tmpd", 0) > 0))
                    except Exception:
                        pass
                if side == "main" and len(ctx.samples) < 8 and len(lines) > 1:
                    ctx.sample({"driver": [str(a) for a in args], "event": lines[1].strip()[:700]})
            # big shards are split so that one JVM handles <= ~60k lines
            shards = split(path, 60000)
            for sh in shards:
                rej = c.validate("Form/FormTrace.tla", "FormTrace.cfg", sh, max_rejects=maxrej, env=pv.JENV, timeout=1500, heap="3g")
                for x in rej:
                    sg = signature(x["event"], side)
                    with pv._lock:
                        dup = sg in seen_sig
                        seen_sig.add(sg)
                    if not dup:
                        ctx.violation(sg, describe(x["event"]), x["path"])
        pv.merge(ctx, c)

    # harness runs are CPU-bound single threads; TLC validations one JVM each
    pv.run_parallel([(lambda j=j: job(j)) for j in jobs], workers=6)
    ctx.extra["bodies"] = stats["bodies"]
    ctx.extra["harness_runs"] = stats["runs"]
    ctx.extra["exhaustive"] = True
    ctx.extra["rule"] = ("events = (input, observed outcome) lines validated by TLC (identical outcomes of different chunkings of one body are one line "
                         "with a count); bodies / harness_runs = distinct inputs / executions of the real code; distinct = distinct "
                         "(event, content type, filter, status, small/big, #fields, #files, declared-actual, spilled) classes among the first 3000 lines of each driver")


def split(path, n):
    """split an ND-JSON trace at Reset lines into files of about n lines"""
    with open(path) as f:
        lines = f.readlines()
    if len(lines) <= n * 1.3:
        return [path]
    out, cur = [], []
    for ln in lines:
        if '"e":"Reset"' in ln and len(cur) >= n:
            out.append(cur)
            cur = []
        cur.append(ln)
    if cur:
        out.append(cur)
    paths = []
    for i, chunk in enumerate(out):
        p = "%s.s%d" % (path, i)
        with open(p, "w") as f:
            f.writelines(chunk)
        paths.append(p)
    return paths
