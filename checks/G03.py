"""G03 (growth, not a listed property): the session storage back-ends refine one abstract store.

Component: cppcms::sessions::session_storage implementations - memory (src/session_memory_storage.cpp, timeout index +
short_gc), files (src/session_posix_file_storage.cpp, per-file locks, gc scan) and tcp (src/session_tcp_storage.cpp
against the real server side of src/tcp_cache_server.cpp running in-process on memory / files).

Leg D: spec/Session/Store.tla - history variables (latest save, removed, clock) + mechanism (held entries, timeout
       index, per-thread call state Call -> Lin -> Ret, files gc scanner with one critical section per file, the
       server's `int' deadline): LoadCorrect (a), LiveKept / HeldSound / IndexConsistent / MemGcProgress /
       FileGcComplete / OnlyExpiredVanish (b) over all interleavings of 2 (3) threads (c).  Seven seeded design bugs
       and the as-coded deadline truncation of the tcp server (Store_y2038.cfg) must be found by TLC.
Leg B: harness/sessstore/store_drv.cpp
       seq : every back-end, random histories from VERIF_SEED + targeted scenarios, white-box view after each call;
             StoreTrace.tla (strict = today's mechanism; a rejected execution is re-validated at the property layer:
             rejected again => VIOLATION, accepted => MODEL-DRIFT)
       conc: 2..8 threads, harness-side Inv/Ret with one global atomic sequence, StoreLinTrace.tla searches a per-sid
             linearization (depth-first queue)
"""
import os, json, re, threading

BACKENDS = "mem,file,fileflock,tcpmem,tcpmem2,tcpfile"
SCN = "boundary,overwrite,remove,massgc,reindex,expiredsave,srvgc"
JENV = {"JAVA_TOOL_OPTIONS": "-XX:ParallelGCThreads=2"}


def run(ctx):
    import harnesses, sessx
    q = ctx.quick
    ctx.assumptions += [
        "virtual clock: the harness defines time(); deadlines / clock are logged relative to the round's base (1000000, or 2^31-101 in the y2038 scenario)",
        "sids are 32 hex digits (the only alphabet all three back-ends accept: file names / lock slots of the files storage, fixed 32-byte sid field of the tcp protocol)",
        "tcp back-ends: client (tcp_storage) and server (tcp_cache_service on loopback) run in one process and share the virtual clock",
        "session_memory_storage is local to src/session_memory_storage.cpp: the harness compiles that file from the tree under test into the executable to reach map_ / timeout_",
        "concurrent runs: Inv/Ret are stamped outside the library by one atomic counter (no hooks); the clock only moves while no call is pending",
    ]
    # ---------------------------------------------------------------- Leg D (beside Leg B)
    def leg_d():
        w = 4
        if q:
            ctx.design("Session/Store.tla", "Store_mem_quick.cfg", workers=w, timeout=600, heap="4g", note="memory, 2 threads x 2 sids, 2 saves, clock 0..2, batch 1")
            ctx.design("Session/Store.tla", "Store_files_quick.cfg", workers=w, timeout=600, heap="4g", note="files + gc scanner, 2 threads x 2 sids")
            ctx.design("Session/Store.tla", "Store_net_quick.cfg", workers=w, timeout=600, heap="4g", note="tcp in front of memory")
            ctx.design("Session/Store.tla", "Store_seq_quick.cfg", workers=w, timeout=600, heap="4g", note="memory, 1 thread, 3 sids, 3 saves, batch 2, clock 0..3")
        else:
            ctx.design("Session/Store.tla", "Store_mem.cfg", workers=8, timeout=1500, heap="8g", note="memory, 2 threads x 2 sids, 3 saves, clock 0..3")
            ctx.design("Session/Store.tla", "Store_files.cfg", workers=8, timeout=1500, heap="8g", note="files + gc scanner, 2 threads x 2 sids, 3 saves")
            ctx.design("Session/Store.tla", "Store_net.cfg", workers=8, timeout=1500, heap="8g", note="tcp in front of files, 3 saves")
            ctx.design("Session/Store.tla", "Store_seq.cfg", workers=8, timeout=1500, heap="8g", note="memory, 1 thread, 3 sids, 5 saves, batch 2, clock 0..3")
            ctx.design("Session/Store.tla", "Store_mem3.cfg", workers=8, timeout=1500, heap="8g", note="memory, 2 threads x 3 sids, 3 saves, batch 1")
            ctx.design("Session/Store.tla", "Store_3thr.cfg", workers=8, timeout=1500, heap="8g", note="memory, 3 threads")
        for cfg, inv in (("Store_bug_GcBoundary.cfg", "LiveKept"), ("Store_bug_GcBoundaryFiles.cfg", "LiveKept"), ("Store_bug_NoReindex.cfg", "IndexConsistent"),
                         ("Store_bug_NoReindexLive.cfg", "LiveKept"), ("Store_bug_GcNoLock.cfg", "LiveKept"), ("Store_bug_LoadNoLock.cfg", "LoadCorrect"),
                         ("Store_bug_LoadNoExpiry.cfg", "LoadCorrect"), ("Store_bug_GcNever.cfg", "MemGcProgress"), ("Store_y2038.cfg", "LoadCorrect")):
            ctx.design("Session/Store.tla", cfg, workers=2, timeout=300, heap="2g", expect_violation=inv, count=False,
                       note=("as coded: the tcp server's int deadline (D4) must violate " if "y2038" in cfg else "seeded design bug must violate ") + inv)
    td = threading.Thread(target=leg_d)
    td.start()

    # ---------------------------------------------------------------- Leg B
    srcs, extra = harnesses.ALL["store_drv"]
    exe = ctx.harness("store_drv", srcs, extra=extra)
    par = sessx.Par(ctx)
    lock = par.lock

    def harness_trace(c, args, name):
        t = os.path.join(c.work, name)
        rc, out, err = c.run_harness(exe, args, trace=t, timeout=600)
        if rc != 0:
            rc, out, err = c.run_harness(exe, args, trace=t, timeout=600)
        if rc != 0:
            rp = os.path.join(ctx.replays, "crash-%s.txt" % name)
            open(rp, "w").write("store_drv %s\nrc=%s\n%s" % (" ".join(str(a) for a in args), rc, (err or "")[-3000:]))
            with lock:
                if rc == 124:
                    ctx.undecided.append("store_drv %s timed out twice" % (args,))
                else:
                    ctx.violation("crash:%s:%s" % (args[0], args[1]), "driver crashed twice (rc=%s) with %s" % (rc, args), rp)
            return None
        return t

    def note_seen(t, first):
        with open(t) as f:
            lines = f.readlines()
        with lock:
            if first:
                ctx.sample({"driver": first, "first_events": [x.strip()[:200] for x in lines[:6]]})
            for ln in lines[:40000]:
                try:
                    e = json.loads(ln)
                except Exception:
                    continue
                ctx.seen((e.get("e"), e.get("op"), e.get("be"), e.get("scn"), e.get("hit"), len(e.get("m", [])) if "m" in e else None))

    def seq_job(c, args, name, selftest):
        t = harness_trace(c, args, name)
        if not t:
            return
        note_seen(t, list(args) if selftest else None)
        rej = c.validate("Session/StoreTrace.tla", "StoreTrace.cfg", t, timeout=900, heap="4g", env=JENV)
        if selftest and not rej:
            c.binding_selftest("Session/StoreTrace.tla", "StoreTraceProp.cfg", t,
                               [("load-wrong-value", seq_wrong_value), ("load-hit-after-expiry", seq_hit_after_expiry),
                                ("live-session-dropped-from-view", seq_drop_live), ("index-entry-stale", seq_stale_index)], env=JENV)
        for x in rej:
            ok0 = c.traces_ok
            c.t0 += 50
            rej2 = c.validate("Session/StoreTrace.tla", "StoreTraceProp.cfg", x["path"], timeout=600, heap="4g", env=JENV)
            c.traces_ok = ok0
            with lock:
                if rej2:
                    y = rej2[0]
                    ctx.violation(seq_sig(y), "sequential history is not a behaviour of the abstract store at %s" % short(y["event"]), y["path"])
                else:
                    ctx.drift.append("seq: execution accepted at the property layer but not by today's mechanism (strict) at %s (%s)" % (short(x["event"]), x["path"]))

    def conc_job(c, runs, name, selftest):
        parts = []
        for i, args in enumerate(runs):
            t = harness_trace(c, ("conc",) + tuple(args), "%s-%d.ndjson" % (name, i))
            if t:
                parts.append(t)
        if not parts:
            return
        t = os.path.join(c.work, name + ".ndjson")
        with open(t, "w") as o:
            for p in parts:
                o.write(open(p).read())
                os.remove(p)
        note_seen(t, ["conc"] + [list(r) for r in runs] if selftest else None)
        rej = c.validate("Session/StoreLinTrace.tla", "StoreLinTrace.cfg", t, dfs=True, timeout=1500, heap="6g", env=JENV)
        if selftest and not rej:
            c.binding_selftest("Session/StoreLinTrace.tla", "StoreLinTrace.cfg", t,
                               [("ret-wrong-value", conc_wrong_value), ("load-sees-removed", conc_miss_to_stale_hit), ("ret-dropped", conc_drop_ret)],
                               dfs=True, env=JENV)
        for x in rej:
            with lock:
                ctx.violation(conc_sig(x), "concurrent history has no per-sid linearization at %s" % short(x["event"]), x["path"])

    R = ctx.seed
    if q:
        seqjobs = [(("seq", BACKENDS, 6, 60, SCN), "seq-main.ndjson", True),
                   (("seq", BACKENDS, 0, 0, "y2038"), "seq-y2038.ndjson", False)]
        concjobs = [([("mem", 4, 250, 4, 1), ("mem", 8, 120, 8, 1), ("mem", 2, 400, 1, 1), ("fileflock", 3, 150, 3, 1)], "conc-a", True),
                    ([("file", 4, 150, 4, 1), ("file", 8, 60, 8, 1), ("tcpfile", 4, 80, 4, 1)], "conc-b", False),
                    ([("tcpmem", 8, 60, 8, 1), ("tcpmem2", 4, 120, 4, 1), ("tcpmem", 2, 200, 2, 1)], "conc-c", False)]
    else:
        seqjobs = [(("seq", be, 60, 120, SCN), "seq-%s.ndjson" % be, be == "mem") for be in BACKENDS.split(",")]
        seqjobs += [(("seq", BACKENDS, 0, 0, "y2038"), "seq-y2038.ndjson", False)]
        concjobs = []
        k = 0
        for be in BACKENDS.split(","):
            for (t, n, s, r) in ((2, 400, 1, 2), (3, 250, 2, 2), (4, 250, 4, 3), (8, 120, 8, 3), (6, 150, 12, 2)):
                if be.startswith("tcp"):
                    n = n // 2
                concjobs.append(([(be, t, n, s, r)], "conc-%d" % k, k == 0))
                k += 1
    jobs = [("seq",) + j for j in seqjobs] + [("conc",) + j for j in concjobs]

    def work(c, kind, a, name, selftest):
        if kind == "seq":
            seq_job(c, a, name, selftest)
        else:
            conc_job(c, a, name, selftest)

    par.run(jobs, work, width=4)
    td.join()
    ctx.extra["rule"] = ("executions = Reset-delimited rounds (one fresh back-end each): seq = random or scripted history with the back-end's content after every call, "
                         "conc = 3 phases of N threads x M random calls + quiescent read-back; events = trace lines matched by TLC; "
                         "distinct = distinct (event, op, back-end, scenario, hit, view size) tuples")


# ------------------------------------------------------------------------------------ signatures
def short(ev):
    return re.sub(r'"(m|ix)":\[[^\]]*\]', r'"\1":[..]', ev)[:200]


def head_of(x):
    for ln in x["exec"]:
        if '"e":"Reset"' in ln:
            try:
                return json.loads(ln)
            except Exception:
                pass
    return {}


def seq_sig(x):
    h = head_of(x)
    try:
        ev = json.loads(x["event"])
    except Exception:
        ev = {"e": "end"}
    extra = ""
    if ev.get("e") == "Load":
        extra = ":hit=%s" % str(ev.get("hit")).lower()
    be = h.get("be") or "?"
    if h.get("scn") == "y2038" and be.startswith("tcp"):
        be = "tcp"          # one input class: a deadline beyond INT_MAX through the tcp server, whatever its storage
    return "seq:%s:%s:%s%s" % (be, h.get("scn"), ev.get("e"), extra)


def conc_sig(x):
    h = head_of(x)
    try:
        ev = json.loads(x["event"])
    except Exception:
        ev = {"e": "end"}
    kind = ev.get("e")
    if kind == "Ret":
        kind = "Ret:hit=%s" % str(ev.get("hit")).lower() if "hit" in ev else "Ret"
    return "conc:%s:%s" % (h.get("be"), kind)


# ------------------------------------------------------------------------------------ binding self-tests (trace corruptions)
def _edit(lines, pred, fn, skip=0):
    n = 0
    for i, ln in enumerate(lines):
        try:
            e = json.loads(ln)
        except Exception:
            continue
        if pred(e):
            if n < skip:
                n += 1
                continue
            e2 = fn(e)
            if e2 is None:
                continue
            lines[i] = json.dumps(e2, separators=(",", ":"))
            return lines
    return None


def seq_wrong_value(lines):
    return _edit(lines, lambda e: e.get("e") == "Load" and e.get("hit") and e.get("v", 0) > 0, lambda e: dict(e, v=e["v"] + 1), skip=2)


def seq_hit_after_expiry(lines):
    # a miss on a session the view still holds (expired) is turned into a hit with the stored data
    def fn(e):
        for m in e.get("m", []):
            if m["s"] == e["s"]:
                return dict(e, hit=True, v=m["v"], dl=m["dl"])
        return None
    return _edit(lines, lambda e: e.get("e") == "Load" and e.get("hit") is False, fn)


def seq_drop_live(lines):
    # remove from the reported view of a Tick the session with the largest deadline (alive)
    def fn(e):
        m = e.get("m", [])
        if len(m) < 2:
            return None
        big = max(m, key=lambda x: x["dl"])
        if big["dl"] < 900:
            return None
        e = dict(e, m=[x for x in m if x is not big])
        if "ix" in e:
            return None
        return e
    return _edit(lines, lambda e: e.get("e") in ("Tick", "Gc", "Load"), fn)


def seq_stale_index(lines):
    def fn(e):
        ix = e.get("ix", [])
        if len(ix) < 2:
            return None
        ix = [dict(x) for x in ix]
        ix[0]["dl"] -= 1
        return dict(e, ix=ix)
    return _edit(lines, lambda e: "ix" in e, fn)


def conc_wrong_value(lines):
    return _edit(lines, lambda e: e.get("e") == "Ret" and e.get("hit") and e.get("v", 0) > 0, lambda e: dict(e, v=e["v"] + 100000), skip=20)


def conc_miss_to_stale_hit(lines):
    # a load that missed now claims the value of a save that finished long ago and was overwritten / removed since
    saves = {}
    for i, ln in enumerate(lines):
        try:
            e = json.loads(ln)
        except Exception:
            continue
        if e.get("e") == "Reset":
            saves = {}
        if e.get("e") == "Inv" and e.get("op") == "save":
            saves.setdefault(e["s"], []).append((i, e["v"], e["dl"]))
        if e.get("e") == "Inv" and e.get("op") == "load" and len(saves.get(e["s"], [])) >= 6:
            tid = e["tid"]
            for j in range(i + 1, min(i + 200, len(lines))):
                r = json.loads(lines[j])
                if r.get("e") == "Ret" and r.get("tid") == tid:
                    if r.get("hit") is False:
                        _, v, dl = saves[e["s"]][0]
                        lines[j] = json.dumps(dict(r, hit=True, v=v, dl=dl), separators=(",", ":"))
                        return lines
                    break
    return None


def conc_drop_ret(lines):
    n = 0
    for i, ln in enumerate(lines):
        if '"e":"Ret"' in ln:
            n += 1
            if n == 30:
                return lines[:i] + lines[i + 1:]
    return None
