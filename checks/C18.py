"""C18 - a crash while saving a file-backed session never yields a corrupted session.

Leg D: spec/Session/FileStore.tla explored by TLC: saves (header in one write, data in partial writes) over
       absent/shorter/equal/longer previous files, Crash with every subset of the touched sectors, Sync, Load, Gc,
       planted garbage, clock ticks; invariants NoMix, LoadCleans, GcSafe, GcExact, GcCleans, SaveLoads and
       ClosedFormOK (the closed form the trace spec uses == the operational crash-then-load).  Self-test: the
       same model with the header written in two writes must violate NoMix.
Leg B: harness/filestore/fs_drv.cpp drives the real session_file_storage with write() interposed and a fake clock;
       FileStoreTrace.tla judges (1) the write calls of every real save, (2) the real load() on every
       materialised crash image, (3) load / gc over planted garbage, (4) saves under short write() returns.
       Validation is strict first (exact model behaviour); a rejected execution is re-validated at the property
       layer (Strict = FALSE): rejected again => VIOLATION, accepted => model drift.
"""
import os, json, threading, re


JENV = {"JAVA_TOOL_OPTIONS": "-XX:ParallelGCThreads=2"}


def run(ctx):
    q = ctx.quick
    ctx.assumptions += [
        "ideal checksum: no CRC-32 collision among the images explored / materialised (a collision would show up as a rejected trace, not be accepted silently)",
        "the 16-byte header lies in sector 0 and a sector reaches the disk atomically; a crash persists any subset of the sectors touched since the last durable point on top of the durable image (holes read as zeros); unlink is durable at once",
        "crash images are materialised from the write() calls the real save issued (interposed write), they are not produced by a real power failure",
        "previous file states: absent, empty, valid record (shorter/equal/longer, with or without a longer older tail), garbage with a full or 8..15 byte header; garbage shorter than 8 bytes is only driven against load/gc, not as the base of a torn save",
        "virtual clock: the harness defines time(); deadlines/clock logged relative to 1000000",
    ]
    # ---------------------------------------------------------------- Leg D (runs beside Leg B)
    def leg_d():
        ctx.design("Session/FileStore.tla", "FileStore_quick.cfg" if q else "FileStore.cfg", workers=8, timeout=1700, heap="12g")
        ctx.design("Session/FileStore.tla", "FileStore_f8_quick.cfg" if q else "FileStore_f8.cfg", workers=8, timeout=1700, heap="12g",
                   note="buffer pointer not advanced after a short write (F8) allowed")
        if not q:
            ctx.design("Session/FileStore.tla", "FileStore_3saves.cfg", workers=8, timeout=1700, heap="12g", note="three saves in a row")
            ctx.design("Session/FileStore.tla", "FileStore_2files.cfg", workers=8, timeout=1700, heap="12g", note="two files, gc")
        ctx.design("Session/FileStore.tla", "FileStore_mutHdr.cfg", workers=4, timeout=300, expect_violation="NoMix",
                   count=False, extra=["-noGenerateSpecTE"], note="self-test: header written in two writes must violate NoMix")
    td = threading.Thread(target=leg_d)
    td.start()

    # ---------------------------------------------------------------- Leg B
    exe = ctx.harness("fs_drv", ["filestore/fs_drv.cpp"])
    nsh = 6 if q else 12
    jobs = [("crash", ["crash", i, nsh]) for i in range(nsh)]
    jobs += [("gc", ["gc", 120 if q else 1500]), ("short", ["short"])]
    import sessx
    par = sessx.Par(ctx)
    lock = par.lock
    stats = {}

    def work(c, kind, args, n):
        t = os.path.join(c.work, "c18-%s-%d.ndjson" % (kind, n))
        rc, out, err = c.run_harness(exe, args, trace=t, timeout=1500)
        if rc != 0:
            c.undecided.append("fs_drv %s failed rc=%s %s %s" % (args, rc, out[-300:], err[-500:]))
            return
        with open(t) as f:
            head = [next(f, "").strip() for _ in range(400)]
        with lock:
            for m in re.finditer(r"(\w+)=(\d+)", out):
                stats[kind + "_" + m.group(1)] = stats.get(kind + "_" + m.group(1), 0) + int(m.group(2))
            for ln in head:
                ctx.seen(re.sub(r'"data":\[[^\]]*\]', '"data":[..]', ln)[:120])
            if n in (0, nsh, nsh + 1):
                ctx.sample({"driver": [str(a) for a in args],
                            "events": [re.sub(r'"data":\[([^\]]{0,60})[^\]]*\]', r'"data":[\1..]', x)[:260] for x in head[:3] + head[8:11]]})
        rej = c.validate("Session/FileStoreTrace.tla", "FileStoreTrace.cfg", t, timeout=1500, heap="6g", env=JENV)
        for x in rej:
            # property layer on the rejected execution alone
            ok0 = c.traces_ok
            c.t0 += 50
            rej2 = c.validate("Session/FileStoreTrace.tla", "FileStoreTraceProp.cfg", x["path"], timeout=600, heap="4g", env=JENV)
            c.traces_ok = ok0           # the single-execution re-validation is not a new trace
            with lock:
                if rej2:
                    y = rej2[0]
                    ctx.violation("%s:%s" % (kind, sig(y)), "%s: real behaviour is not a behaviour of FileStore (C18) at %s" % (kind, short(y["event"])), y["path"])
                else:
                    ctx.drift.append("%s: execution accepted at the property layer but differs from the mechanism model at %s (%s)" % (kind, short(x["event"]), x["path"]))
        try:
            os.remove(t)
        except OSError:
            pass

    par.run([(kind, args, n) for n, (kind, args) in enumerate(jobs)], work, width=8)
    td.join()
    ctx.extra["driver_counts"] = stats
    if stats.get("short_load_none"):
        ctx.extra["note_F8"] = ("%d of %d saves under short write() returns left a record that load() rejects (write_all does not advance its buffer, DESIGN.md F8): "
                                "durability loss, allowed by C18 and by the model (Advance = {TRUE, FALSE})" % (stats["short_load_none"], stats.get("short_short_saves", 0)))
    ctx.extra["rule"] = ("executions = Reset-delimited runs: one old/new payload pair with all its crash images, one gc history, or one short-write save; "
                         "events = trace lines TLC matched (one CrashLoad line = one materialised crash image + real load + existence test)")
    ctx.extra["exhaustive"] = False   # per payload pair every crash image of <= 8 sectors is materialised; the pair list itself is a selection


def ssig(S):
    """sector subset: literal when small, else count + range + first gap"""
    if len(S) <= 8:
        return "".join(str(x) for x in S)
    gap = next((a + 1 for a, b in zip(S, S[1:]) if b != a + 1), None)
    return "%dof%d..%d%s" % (len(S), S[0], S[-1], "" if gap is None else "gap%d" % gap)


def short(ev):
    ev = re.sub(r'"S":\[((?:\d+,){8})[^\]]*\]', r'"S":[\1..]', ev)
    return re.sub(r'"data":\[[^\]]*\]', '"data":[..]', ev)[:200]


def sig(x):
    """stable class of the failing input: event kind + the fields that decide the outcome"""
    try:
        ev = json.loads(x["event"])
    except Exception:
        return "end"
    e = ev.get("e")
    if e == "CrashLoad":
        ex = {}
        for ln in x["exec"]:
            try:
                o = json.loads(ln)
            except Exception:
                continue
            if o.get("e") == "Base":
                ex["base"] = "%s%d" % (o.get("hk"), o.get("len", 0))
            if o.get("e") == "Save":
                ex["n"] = o.get("n")
        return "CrashLoad:base=%s:n=%s:w=%s:pb=%s:S=%s:ok=%s:ids=%s" % (ex.get("base"), ex.get("n"), ev.get("w"), ev.get("pb"),
                                                                       ssig(ev.get("S", [])), ev.get("ok"), ev.get("ids"))
    if e == "Load":
        ws = [json.loads(l) for l in x["exec"] if '"e":"Write"' in l]
        hdr_short = any(w["n"] == 16 and w["off"] == 0 and w["ret"] != 16 for w in ws) or any(w["off"] < 16 and w["off"] > 0 for w in ws)
        sv = [json.loads(l) for l in x["exec"] if '"e":"ShortSave"' in l]
        if sv:
            return "Load-after-short-%s-write:n=%s:ok=%s:payload=%s:dl=%s" % ("header" if hdr_short else "data", sv[-1]["n"], ev.get("ok"),
                       "corrupt" if -1 in ev.get("ids", []) else "saved", "own" if ev.get("dl") == sv[-1]["dl"] else "foreign")
        return "Load:ok=%s:ids=%s:ex=%s" % (ev.get("ok"), ev.get("ids"), ev.get("ex"))
    if e == "Write":
        return "Write:off=%s:n=%s" % (ev.get("off"), ev.get("n"))
    if e == "Gc":
        return "Gc:removed=%s" % sorted(set(ev.get("before", [])) - set(ev.get("after", [])))
    return "%s@%d" % (e, x["offset_in_exec"])
