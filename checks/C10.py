"""C10 - networked cache with local L1 never serves data another node replaced; wire format
fidelity; consistent key -> server spread.

Leg D: spec/Cache/Net.tla - servers with their own never-reset generation counter, clients with an
       optional L1 that remembers the server's generation, multi-step client operations (L1 lookup,
       RPC / server step, L1 update, return) interleaved at step granularity.  Invariants Coherent,
       NoStale, GenUnique, Wire, Placement.  Broken variants of the design (Mut) are run as self-tests
       of the invariants.
Leg B: harness/netcache/netcache_drv.cpp - in-process tcp_cache_service instances on loopback, clients
       from tcp_cache_factory with / without thread_cache_factory L1, fake clock; the harness looks
       directly into every server's backing cache and every client's L1 after each operation.
       (1) sequential drivers (all op-level interleavings of small depth, random histories, wire cases)
           validated against NetTrace.tla: every operation = Begin;...;Return of Net;
       (2) 2-3 concurrent client threads; the Lin/Lock hook events of cache_storage.cpp (inside the
           servers' backing caches and the clients' L1 objects) plus Inv/Ret of the harness, ordered by
           the global sequence number, validated step by step against NetHookTrace.tla.
       Strict cfg = mechanism layer (L1 contents, exact generations); *P cfg = property layer (clients
       treated as L1-less).  Only a property-layer rejection or a named deviation is a VIOLATION.
"""
import os, json, threading
from concurrent.futures import ThreadPoolExecutor


def run(ctx):
    import netcache
    q = ctx.quick
    ctx.assumptions += [
        "one process: servers and clients share the harness' fake clock (time() interposed), so deadlines are compared with one clock",
        "servers are never restarted during an execution (a restarted server stamps from generation 0 again; Net.tla with Restarts=1 shows the handshake then fails - outside C10's quantifier)",
        "trigger names contain no NUL byte and are not empty (the wire format is NUL-terminated; the server refuses such stores)",
        "each client object is used by one thread (its L1 is private to it) in the threaded leg",
        "value alphabet of every history driver (exhaustive, random, threaded): fresh id-carrying values (bytes 0..255 incl. NUL), the EMPTY "
        "string (value code 0: a hit with no bytes, distinct from a miss) and a proper prefix of the value stored before; each client passes one "
        "reused, never cleared std::string to all its fetches; values up to 64 KiB only in the wire driver",
        "TLC explores Net.tla for <= 3 clients, <= 2 servers, <= 2 keys, 1 trigger; larger alphabets only through validated traces",
    ]
    if ctx.replay:      # vcheck C10 --replay <file>: judge one recorded trace again
        import shutil
        t = os.path.join(ctx.work, "replay.ndjson")
        shutil.copy(ctx.replay, t)
        kind = "thr" if '"e":"Srv"' in open(t).read() else "seq"
        state = {"dev": {}, "rej": {}, "lock": threading.Lock()}
        judge(ctx, netcache, "replay", t, kind, state)
        report(ctx, state)
        return
    # Leg D (TLC, many workers) runs beside Leg B (harness + one single-worker JVM per trace)
    td = threading.Thread(target=legD, args=(ctx, q))
    td.start()
    try:
        legB(ctx, q, netcache)
    finally:
        td.join()
    ctx.extra["rule"] = ("events = trace lines validated by TLC (one line = one client operation with the servers' and the L1's "
                         "observed contents, or one wire case, or one step of a threaded run); executions = Reset-delimited "
                         "histories; distinct = distinct (operation, arguments, result) texts among the first 3000 events of each run")


# ------------------------------------------------------------------------------------------- Leg D
def legD(ctx, q):
    w = 16
    runs = ["Net_q1.cfg", "Net_q2.cfg", "Net_q3.cfg"] if q else ["Net_t1.cfg", "Net_t2.cfg", "Net_t3.cfg", "Net_t4.cfg"]
    complete = True
    for cfg in runs:
        r = ctx.design("Cache/Net.tla", cfg, workers=w, timeout=240 if q else 1500, heap="4g", deadlock_off=True)
        complete = complete and r.complete and not r.violated
    ctx.extra["exhaustive"] = complete
    # the invariants bite: broken designs must violate them
    muts = [("Net_m_l1hit.cfg", "Coherent"), ("Net_m_union.cfg", "Wire"), ("Net_m_genreset.cfg", "GenUnique"),
            ("Net_m_emptykeep.cfg", "Coherent"), ("Net_m_l1stamp_evict.cfg", "NoStale")]
    if not q:
        muts += [("Net_m_genreset_coh.cfg", "Coherent"), ("Net_m_restart.cfg", "Coherent"), ("Net_m_l1stamp_2s.cfg", "NoStale")]
    for cfg, inv in muts:
        ctx.design("Cache/Net.tla", cfg, workers=4, timeout=300, heap="2g", deadlock_off=True, expect_violation=inv, extra=["-noGenerateSpecTE"],
                   note="self-test: broken design must violate " + inv)
    ctx.extra["design_answer"] = ("no interleaving of stores by different clients, rise and clear makes a server answer `uptodate` "
                                  "for stale L1 data as long as a server's generation counter is never reset (GenUnique); "
                                  "`store` invalidating L1 first and purging L1 on no_data are NOT needed for coherence "
                                  "(variants nostoreinv / nopurge keep all invariants) because every fetch is revalidated")


# ------------------------------------------------------------------------------------------- Leg B
def legB(ctx, q, netcache):
    exe = ctx.harness("netcache_drv", ["netcache/netcache_drv.cpp"])
    jobs = []   # (tag, args, env, kind)
    def seq(tag, *args, shard=None, seed=None):
        env = {"VERIF_SHARD": shard} if shard else {}
        if seed is not None:
            env["VERIF_SEED"] = str(seed)
        jobs.append((tag, [str(a) for a in args], env, "seq"))
    # exh mode bits: 1 deadlines 0/1 + tick, 2 no rise(key), 4 value kinds {fresh full value, EMPTY value, proper
    # prefix of the previous value}.  Every client reuses one output string for all its fetches.
    if q:
        for sh in range(2):
            seq("exh-l1l1-%d" % sh, "exh", 1, 2, 3, 1, 1, 4, 0, shard="%d/2" % sh)
            # value kinds; c0 has an L1, c1 has none (reused-buffer path), 1 and 2 servers:
            # contains  c0.fetch k (non-empty) ; c1.store k := "" ; c0.fetch k   and the mirror image
            seq("exh-val-1s-%d" % sh, "exh", 1, 2, 1, 1, 0, 4, 4, shard="%d/2" % sh)
            seq("exh-val-2s-%d" % sh, "exh", 2, 2, 1, 1, 0, 4, 4, shard="%d/2" % sh)
        seq("exh-val-l1l1", "exh", 1, 2, 3, 1, 0, 3, 4)
        seq("exh-l1none", "exh", 1, 2, 1, 1, 1, 3, 0)
        seq("exh-3c2s", "exh", 2, 3, 3, 2, 1, 3, 2)
        seq("exh-clock", "exh", 1, 2, 3, 1, 1, 3, 1)
        for i, (ns, nc, mask, lim) in enumerate([(1, 2, 3, 0), (1, 2, 1, 0), (2, 3, 7, 0), (2, 3, 5, 2), (1, 3, 3, 1), (3, 3, 6, 0)]):
            seq("rand-%d" % i, "rand", ns, nc, mask, lim, 4, 3, 80, 10)
        seq("wire-2s", "wire", 2, 400, 65536)
        seq("wire-1s", "wire", 1, 200, 4096)
        # generation coincidences: fresh servers / L1s per execution, L1 limits 0..3 with key cycling, aged servers,
        # another client re-stores each key when the server's next generation equals the stamp an L1 holds
        seq("coin-1s", "coin", 1, 2, 1, 4, 80)
        seq("coin-2s", "coin", 2, 3, 3, 4, 100)
        seq("coin-3s", "coin", 3, 2, 3, 6, 60)
    else:
        for s in range(4):
            seq("exh-l1l1-%d" % s, "exh", 1, 2, 3, 1, 1, 5, 0, shard="%d/4" % s)
            seq("exh-l1none-%d" % s, "exh", 1, 2, 1, 1, 1, 5, 0, shard="%d/4" % s)
            seq("exh-val-1s-%d" % s, "exh", 1, 2, 1, 1, 0, 5, 4, shard="%d/4" % s)
        for s in range(2):
            seq("exh-val-2s-%d" % s, "exh", 2, 2, 1, 1, 0, 4, 4, shard="%d/2" % s)
            seq("exh-val-l1l1-%d" % s, "exh", 1, 2, 3, 1, 0, 4, 4, shard="%d/2" % s)
            seq("exh-val-2k2s-%d" % s, "exh", 2, 2, 1, 2, 0, 3, 6, shard="%d/2" % s)
        seq("exh-val-3c2s", "exh", 2, 3, 5, 2, 0, 3, 6)
        for s in range(6):
            seq("exh-3c2s-%d" % s, "exh", 2, 3, 3, 2, 1, 4, 2, shard="%d/6" % s)
        seq("exh-3c2s-allL1", "exh", 2, 3, 7, 2, 1, 3, 0)
        seq("exh-clock", "exh", 1, 2, 3, 1, 1, 4, 1)
        seq("exh-clock-l1none", "exh", 1, 2, 1, 1, 1, 4, 1)
        seq("exh-2k", "exh", 1, 2, 3, 2, 1, 3, 0)
        i = 0
        for ns in (1, 2, 3):
            for nc, mask in ((2, 3), (2, 1), (3, 7), (3, 5), (3, 0)):
                for lim in (0, 2):
                    if lim and not mask:
                        continue
                    seq("rand-%d" % i, "rand", ns, nc, mask, lim, 6, 4, 300, 12)
                    i += 1
        seq("wire-2s", "wire", 2, 3000, 65536)
        seq("wire-3s", "wire", 3, 2000, 65536)
        seq("wire-1s", "wire", 1, 1000, 65536)
        for i, (ns, nc, mask, nk) in enumerate([(1, 2, 1, 4), (1, 2, 3, 3), (1, 3, 7, 5), (2, 2, 1, 4), (2, 3, 3, 4), (2, 3, 7, 6),
                                                (3, 2, 3, 6), (3, 3, 5, 6)]):
            for j in range(3):      # a process can create only ~1000 client objects (one pthread key each): several runs, different seeds
                seq("coin-%d-%d" % (i, j), "coin", ns, nc, mask, nk, 200, seed=ctx.seed * 16 + j + 1)
    thr = []
    if q:
        thr = [("thr-1s", ["thr", 1, 3, 3, 2, 1, 25, 6, 1]), ("thr-2s", ["thr", 2, 3, 5, 2, 1, 25, 6, 2])]
    else:
        thr = [("thr-1s", ["thr", 1, 3, 3, 2, 1, 60, 30, 1]), ("thr-1s-2c", ["thr", 1, 2, 3, 1, 1, 80, 30, 2]),
               ("thr-2s", ["thr", 2, 3, 5, 2, 1, 60, 30, 2]), ("thr-2s-allL1", ["thr", 2, 3, 7, 3, 1, 60, 30, 2]),
               ("thr-3s", ["thr", 3, 3, 3, 3, 1, 60, 20, 1])]
    for tag, args in thr:
        jobs.append((tag, [str(a) for a in args], {}, "thr"))

    state = {"dev": {}, "rej": {}, "nseq": 0, "nthr": 0, "hook_events": 0, "wire_cases": 0, "lock": threading.Lock()}
    pool = ThreadPoolExecutor(max_workers=6)
    futs = [pool.submit(selftest, ctx, netcache, exe)]
    nsample = 0
    for tag, args, env, kind in jobs:
        t = os.path.join(ctx.work, "c10-%s.ndjson" % tag)
        rc, out, err = ctx.run_harness(exe, args, trace=t, env=env, timeout=900)
        if rc != 0:
            ctx.undecided.append("netcache_drv %s failed rc=%s %s" % (args, rc, err[-500:]))
            continue
        if kind == "thr":
            raw = t
            t = raw + ".steps"
            n_exec, n_out, n_lin = netcache.prep_threaded(raw, t)
            os.remove(raw)
            if n_lin == 0:
                ctx.extra["threaded_leg"] = ("skipped: no Lin/Lock hook events in the trace (library built without the "
                                             "cache_storage.cpp hooks)")
                continue
            state["hook_events"] += n_lin
            state["nthr"] += n_exec
        with open(t) as f:
            lines = f.readlines()
        for ln in lines[:3000]:
            ctx.seen(ln.split('"so"')[0][:90])
        if nsample < 5 and kind == "seq" and ("exh-l1l1" in tag or "exh-val-1s" in tag or "wire" in tag or "rand-3" in tag) or (kind == "thr" and nsample < 7 and "1s" in tag):
            nsample += 1
            ctx.sample({"driver": args, "first_events": [x.strip()[:400] for x in lines[:5]]})
        if args[0] == "wire":
            state["wire_cases"] += sum(1 for x in lines if '"e":"Wire"' in x)
        elif kind == "seq":
            state["nseq"] += sum(1 for x in lines if '"e":"Reset"' in x)
        futs.append(pool.submit(judge, ctx, netcache, tag, t, kind, state))
    for f in futs:
        try:
            f.result()
        except Exception:
            import traceback
            ctx.undecided.append("validation job crashed:\n" + traceback.format_exc())
    pool.shutdown()
    report(ctx, state)
    ctx.extra["sequential_executions"] = state["nseq"]
    ctx.extra["wire_cases"] = state["wire_cases"]
    ctx.extra["threaded_executions"] = state["nthr"]
    ctx.extra["hook_events_in_threaded_leg"] = state["hook_events"]
    ctx.extra.setdefault("threaded_leg", "run: Lin/Lock hooks of cache_storage.cpp present")


def report(ctx, state):
    # named deviations -> violations (one per signature, with the shortest failing history as replay)
    for sig, d in sorted(state["dev"].items()):
        ctx.violation(sig, "%s (%d occurrences in this run); first: %s" % (DEV_TEXT.get(sig, sig), d["n"], d["hist"]), d["path"])
    for sig, d in sorted(state["rej"].items()):
        h = d["hist"] if len(d["hist"]) < 1500 else "... " + d["hist"][-1500:]
        ctx.violation(sig, "not a behaviour of Net (%d rejected executions with this signature); shortest: event %d of: %s   (event %s)" % (
            d["n"], d["len"], h, d["event"]), d["path"])
    ctx.extra["deviations"] = {s: d["n"] for s, d in state["dev"].items()}


DEV_TEXT = {
    "l1-refetch-trigger-union": "fetch through a client with L1 whose L1 entry was replaced on the server by a store with other triggers: "
                                "value is right but the trigger set returned (and re-stored in L1) is the union of old and new triggers",
    "wire-key-nul-trigger-split": "key containing a NUL byte: stored and fetched value/deadline are right but the trigger set that comes "
                                  "back has the key's own trigger cut at the NUL (the key travels back NUL-terminated among the triggers)",
}


def judge(ctx, netcache, tag, t, kind, state):
    mod = "Cache/NetTrace.tla" if kind == "seq" else "Cache/NetHookTrace.tla"
    cfgS = "NetTrace.cfg" if kind == "seq" else "NetHookTrace.cfg"
    cfgP = "NetTraceP.cfg" if kind == "seq" else "NetHookTraceP.cfg"
    rejS, dev = netcache.validate(ctx, mod, cfgS, t, tag + "-s", max_rejects=3, heap="3g")
    execs = netcache.executions(t)
    if dev:
        with state["lock"]:
            for sig, line in dev:
                d = state["dev"].setdefault(sig, {"n": 0, "len": 1 << 30})
                d["n"] += 1
                first, lines = netcache.exec_at(execs, line)
                upto = line - first          # number of lines of the execution up to and including the deviating one
                if '"e":"Wire"' in lines[upto - 1]:
                    lines, upto = [lines[0], lines[upto - 1]], 2     # wire cases are independent of each other
                if upto < d["len"]:            # keep the shortest failing history as the replay
                    p = os.path.join(ctx.replays, "deviation-%s.ndjson" % sig)
                    with open(p, "w") as f:
                        f.write("\n".join(lines[:upto]) + "\n")
                    d.update(len=upto, path=p, hist=netcache.history(lines, upto))
    if rejS:
        # mechanism layer disagrees: ask the property layer about the whole trace
        devlines = {line: sig for sig, line in dev}
        rejP, _ = netcache.validate(ctx, mod, cfgP, t, tag + "-p", max_rejects=3, heap="3g")
        bad = set()
        with state["lock"]:
            for x in rejP:
                bad.add(x["line"] - x["offset_in_exec"])
                sig = "%s:%s" % ("optrace" if kind == "seq" else "steptrace", devlines.get(x["line"]) or netcache.classify(x, kind != "seq"))
                d = state["rej"].setdefault(sig, {"n": 0, "len": 1 << 30})
                d["n"] += 1
                if x["offset_in_exec"] < d["len"]:
                    d.update(len=x["offset_in_exec"], path=x["path"], event=x["event"][:300],
                             hist=netcache.history(x["exec"], x["offset_in_exec"] + 1))
            for x in rejS:
                if (x["line"] - x["offset_in_exec"]) not in bad and len(ctx.drift) < 6:
                    ctx.drift.append("%s: mechanism layer (L1 contents / generations / L1 steps) rejects event %d %s of %s; the property layer accepts the execution" % (
                        tag, x["offset_in_exec"], x["event"][:200], netcache.history(x["exec"], x["offset_in_exec"] + 1)[-500:]))
    try:
        os.remove(t)
    except OSError:
        pass


def selftest(ctx, netcache, exe):
    """binding self-test: a corrupted field and a dropped event must both be rejected"""
    t = os.path.join(ctx.work, "c10-self.ndjson")
    script = "store 0 1 50 1 17\nfetch 1 1\nstore 1 2 50 0\nfetch 0 2\nrise 0 17\nfetch 1 1\nfetch 1 2\n"
    rc, out, err = ctx.run_harness(exe, ["script", 2, 2, 3, 0, 2, 1], trace=t, stdin=script)
    if rc != 0:
        ctx.undecided.append("self-test script failed rc=%s %s" % (rc, err[-300:]))
        return
    lines = open(t).read().splitlines()
    # (a) corrupt one field: the value id returned by the first fetch
    e = json.loads(lines[2])
    if len(lines) != 8 or "rv" not in e or '"hit":false' not in lines[6]:
        ctx.extra["binding_selftest"] = "skipped: the script execution itself deviates (reported by the main legs)"
        return
    e["rv"] = e["rv"] + 1
    a = lines[:2] + [json.dumps(e, separators=(",", ":"))] + lines[3:]
    # (b) drop one event: the rise (the following fetch then misses without a cause)
    b = lines[:5] + lines[6:]
    # (c) the pristine execution
    f = os.path.join(ctx.work, "c10-self-abc.ndjson")
    open(f, "w").write("\n".join(a + b + lines) + "\n")
    res = {}
    for cfg in ("NetTrace.cfg", "NetTraceP.cfg"):
        rej, _ = netcache.validate(ctx, "Cache/NetTrace.tla", cfg, f, "self-" + cfg, replays=os.path.join(ctx.work, "selfrej"), count=False)
        got = sorted(x["line"] for x in rej)
        ina = [x for x in got if x <= len(a)]
        inb = [x for x in got if len(a) < x <= len(a) + len(b)]
        inc = [x for x in got if x > len(a) + len(b)]
        if inc:
            # this layer does not even accept the unmodified execution (the main legs report that, as violation or
            # as drift): mutating it proves nothing, and it must not make the run undecided
            res[cfg] = "skipped: the unmodified script execution is rejected by this layer at line %d of it" % (inc[0] - len(a) - len(b))
            continue
        res[cfg] = "corrupted field rejected at line %s, dropped event noticed at line %s of its copy, pristine copy accepted" % (
            ina[:1], [x - len(a) for x in inb[:1]])
        if not ina or not inb:
            ctx.undecided.append("binding self-test (%s): a mutated copy of an accepted execution was accepted too "
                                 "(corrupted field rejected: %s, dropped event rejected: %s)" % (cfg, bool(ina), bool(inb)))
    ctx.extra["binding_selftest"] = res
